(* C02 / C01 "only via" clauses over ARBITRARY instructions, transactions and histories (part 1: shared machinery + C02).
   keep Pt Pd W W' : a world relation (reflexive, transitive) saying, account by account,
     - an SPL token account (Token-owned, DToken t) stays that token account (same mint, same token-owner), never loses
       lamports, and - where Pt k (t_owner t) holds - its amount does not decrease;
     - a validator deposit (KRd-owned, DDeposit dp) stays a deposit of the same node and - where Pd k holds - its lamports do
       not decrease;
     - a KRd-owned account with non-empty data keeps its owner and the kind (discriminator) of its data.
   Every runtime primitive, the 22 RD + 6 passport + 3 mock-swap processors, the top-level System / Token instructions and
   the rogue CPI wrappers are in `keep` for the protection predicates their privileges allow (Section Keep, exec_data_keep).
   Index at the end. *)
From DZ Require Import Base Keys Merkle BurnRate Shares Recipients Swap_Ring State World SwapDeq RD Passport Swap Exec
  Lemmas_Merkle Lemmas_Shares Lemmas_RdGuards Lemmas_Canon Lemmas_RdSpecs5 Lemmas_Hist Lemmas_Inv3 Lemmas_C16h.

(* ------------------------------------------------------------------ 1. views of an account *)
Definition dkind (x : adata) : N :=
  match x with
  | DEmpty => 0 | DConfig _ => 1 | DJournal _ => 2 | DDist _ _ => 3 | DDeposit _ => 4 | DContrib _ => 5 | DPpConfig _ => 6
  | DAccessReq _ => 7 | DFills _ => 8 | DToken _ => 9 | DMint _ => 10 | DProgData _ => 11 | DScript _ => 12 | DRaw _ => 13
  end.
Definition ta (a : acct) : option token_acct :=
  if key_eqb (owner a) KToken then match data a with DToken t => Some t | _ => None end else None.
Definition da (a : acct) : option deposit :=
  if key_eqb (owner a) KRd then match data a with DDeposit d => Some d | _ => None end else None.
Definition tok_at (W : world) (k : key) : option token_acct := ta (get W k).
Definition dep_at (W : world) (k : key) : option deposit := da (get W k).

Lemma ta_some a t : ta a = Some t <-> owner a = KToken /\ data a = DToken t.
Proof.
  unfold ta. destruct (key_eqb_spec (owner a) KToken) as [E|E].
  - destruct (data a); split; try (intros H; discriminate H); try (intros [_ H]; discriminate H).
    + intros H; injection H as <-; auto.
    + intros [_ H]; injection H as <-; reflexivity.
  - split; [discriminate|]. intros [H _]. contradiction.
Qed.
Lemma da_some a d : da a = Some d <-> owner a = KRd /\ data a = DDeposit d.
Proof.
  unfold da. destruct (key_eqb_spec (owner a) KRd) as [E|E].
  - destruct (data a); split; try (intros H; discriminate H); try (intros [_ H]; discriminate H).
    + intros H; injection H as <-; auto.
    + intros [_ H]; injection H as <-; reflexivity.
  - split; [discriminate|]. intros [H _]. contradiction.
Qed.
Lemma ta_owner_none a : owner a <> KToken -> ta a = None.
Proof. intros H. unfold ta. rewrite (key_eqb_neq _ _ H). reflexivity. Qed.
Lemma da_owner_none a : owner a <> KRd -> da a = None.
Proof. intros H. unfold da. rewrite (key_eqb_neq _ _ H). reflexivity. Qed.
Lemma da_kind_none a : dkind (data a) <> 4 -> da a = None.
Proof. intros H. unfold da. destruct (key_eqb _ KRd); [|reflexivity]. destruct (data a); try reflexivity. exfalso. apply H. reflexivity. Qed.
Lemma tok_at_as_token W k t : tok_at W k = Some t <-> as_token W k = Ok t.
Proof. unfold tok_at. rewrite ta_some, Lemmas_RdSpecs.as_token_ok. tauto. Qed.
Lemma dep_at_rd_acct W k d : dep_at W k = Some d <-> rd_acct W k (DDeposit d).
Proof. unfold dep_at, rd_acct. apply da_some. Qed.

(* ------------------------------------------------------------------ 2. the relation *)
Section Keep.
  Variable Pt : key -> key -> Prop.      (* Pt k ow : the token account at k with token-owner ow is protected *)
  Variable Pd : key -> Prop.             (* Pd k : the deposit at k is protected *)

  Definition akeep (k : key) (a a' : acct) : Prop :=
    (forall t, ta a = Some t -> lamports a <= lamports a' /\
       exists n', ta a' = Some (t <| t_amount := n' |>) /\ (Pt k (t_owner t) -> t_amount t <= n')) /\
    (forall dp, da a = Some dp -> exists dp', da a' = Some dp' /\ dp_node dp' = dp_node dp /\ (Pd k -> lamports a <= lamports a')) /\
    (owner a = KRd -> data a <> DEmpty -> owner a' = KRd /\ dkind (data a') = dkind (data a)).
  Definition keep (W W' : world) : Prop := forall k, akeep k (get W k) (get W' k).

  Lemma akeep_refl k a : akeep k a a.
  Proof.
    split; [|split].
    - intros t Ht. split; [lia|]. exists (t_amount t). rewrite set_tamount_id. split; [exact Ht|lia].
    - intros dp Hd. exists dp. split; [exact Hd|]. split; [reflexivity|lia].
    - auto.
  Qed.
  Lemma akeep_trans k a b c : akeep k a b -> akeep k b c -> akeep k a c.
  Proof.
    intros (T1 & D1 & K1) (T2 & D2 & K2). split; [|split].
    - intros t Ht. destruct (T1 t Ht) as (L1 & n1 & Hb & M1). destruct (T2 _ Hb) as (L2 & n2 & Hc & M2). cbn in Hc, M2.
      split; [lia|]. exists n2. split; [exact Hc|]. intros HP. specialize (M1 HP). specialize (M2 HP). lia.
    - intros dp Hd. destruct (D1 dp Hd) as (dp1 & Hb & N1 & M1). destruct (D2 dp1 Hb) as (dp2 & Hc & N2 & M2).
      exists dp2. split; [exact Hc|]. split; [congruence|]. intros HP. specialize (M1 HP). specialize (M2 HP). lia.
    - intros Ho Hd. destruct (K1 Ho Hd) as (Ho1 & Hk1).
      assert (Hd1 : data b <> DEmpty). { intros E. rewrite E in Hk1. destruct (data a); try discriminate Hk1. apply Hd. reflexivity. }
      destruct (K2 Ho1 Hd1) as (Ho2 & Hk2). split; [exact Ho2|congruence].
  Qed.
  Lemma keep_refl W : keep W W.
  Proof. intros k. apply akeep_refl. Qed.
  Lemma keep_trans W1 W2 W3 : keep W1 W2 -> keep W2 W3 -> keep W1 W3.
  Proof. intros H1 H2 k. eapply akeep_trans; [apply H1|apply H2]. Qed.

  (* an account that is neither a token account, nor a deposit, nor typed KRd data may become anything *)
  Lemma akeep_free k a a' : ta a = None -> da a = None -> (owner a = KRd -> data a = DEmpty) -> akeep k a a'.
  Proof.
    intros Ht Hd Hk. split; [|split].
    - intros t E. congruence.
    - intros dp E. congruence.
    - intros Ho Hn. exfalso. apply Hn, Hk, Ho.
  Qed.
  Lemma akeep_notrd_nottok k a a' : owner a <> KRd -> owner a <> KToken -> akeep k a a'.
  Proof. intros H1 H2. apply akeep_free; [apply ta_owner_none, H2|apply da_owner_none, H1|]. intros E. contradiction. Qed.
  (* same owner and data; lamports not lower *)
  Lemma akeep_same k a a' : owner a' = owner a -> data a' = data a -> lamports a <= lamports a' -> akeep k a a'.
  Proof.
    intros Ho Hd Hl. split; [|split].
    - intros t Ht. split; [exact Hl|]. exists (t_amount t). rewrite set_tamount_id. split; [|lia].
      unfold ta in *. rewrite Ho, Hd. exact Ht.
    - intros dp E. exists dp. split; [unfold da in *; rewrite Ho, Hd; exact E|]. split; [reflexivity|]. intros _. exact Hl.
    - intros E _. split; congruence.
  Qed.
  Lemma akeep_hdr k a a' : hdr a' = hdr a -> lamports a <= lamports a' -> akeep k a a'.
  Proof. intros Hh. apply akeep_same; [apply (hdr_owner _ _ Hh)|apply (hdr_data _ _ Hh)]. Qed.
  (* same header, lamports lowered: allowed for anything but a token account or a protected deposit *)
  Lemma akeep_hdr_debit k a a' : hdr a' = hdr a -> ta a = None -> (da a = None \/ ~ Pd k) -> akeep k a a'.
  Proof.
    intros Hh Ht Hdp. pose proof (hdr_owner _ _ Hh) as Ho. pose proof (hdr_data _ _ Hh) as Hd. split; [|split].
    - intros t E. congruence.
    - intros dp E. exists dp. split; [unfold da in *; rewrite Ho, Hd; exact E|]. split; [reflexivity|].
      intros HP. destruct Hdp as [N|N]; [congruence|contradiction].
    - intros E _. split; congruence.
  Qed.

  Lemma keep_put W k a : akeep k (get W k) a -> keep W (put W k a).
  Proof.
    intros H k'. rewrite Lemmas_RdSpecs.get_put. destruct (key_eqb_spec k k') as [<-|]; [exact H|apply akeep_refl].
  Qed.
  Lemma keep_pointwise1 W W' k a :
    (forall k', get W' k' = if key_eqb k k' then a else get W k') -> akeep k (get W k) a -> keep W W'.
  Proof. intros Hg H k'. rewrite Hg. destruct (key_eqb_spec k k') as [<-|]; [exact H|apply akeep_refl]. Qed.
  Lemma keep_ext W W' : (forall k, get W' k = get W k) -> keep W W'.
  Proof. intros H k. rewrite H. apply akeep_refl. Qed.
  Lemma keep_hdr_up W W' : (forall k, hdr (get W' k) = hdr (get W k)) ->
    (forall k, owner (get W k) <> KSystem -> lamports (get W k) <= lamports (get W' k)) -> keep W W'.
  Proof.
    intros Hh Hl k. destruct (key_eq_dec (owner (get W k)) KSystem) as [E|E].
    - pose proof (hdr_owner _ _ (Hh k)) as Ho. pose proof (hdr_data _ _ (Hh k)) as Hd.
      apply akeep_notrd_nottok; rewrite E; discriminate.
    - apply akeep_hdr; [apply Hh|apply Hl, E].
  Qed.

  (* facts about typed KRd accounts travel forward *)
  Definition kd (W : world) (k : key) (c : N) : Prop := owner (get W k) = KRd /\ dkind (data (get W k)) = c.
  Lemma kd_fwd W W' k c : keep W W' -> c <> 0 -> kd W k c -> kd W' k c.
  Proof.
    intros H Hc [Ho Hk]. destruct (H k) as (_ & _ & K).
    assert (Hd : data (get W k) <> DEmpty). { intros E. rewrite E in Hk. cbn in Hk. congruence. }
    destruct (K Ho Hd) as (Ho' & Hk'). split; [exact Ho'|congruence].
  Qed.
  Lemma kd_of W k x c : owner (get W k) = KRd -> data (get W k) = x -> dkind x = c -> kd W k c.
  Proof. intros Ho Hd <-. split; [exact Ho|rewrite Hd; reflexivity]. Qed.
  Lemma kd_da_none W k c : kd W k c -> c <> 4 -> da (get W k) = None.
  Proof. intros [_ Hk] Hc. apply da_kind_none. congruence. Qed.

  (* ---------------------------------------------------------------- 3. primitives *)
  Lemma credit_keep cx W k amt W' : credit cx W k amt = Ok W' -> keep W W'.
  Proof.
    intros H. apply credit_spec in H as (_ & _ & Hg). eapply keep_pointwise1; [exact Hg|].
    apply akeep_hdr; [reflexivity|cbn; lia].
  Qed.
  Lemma debit_keep cx W k amt W' : debit cx W k amt = Ok W' -> cx_prog cx <> KToken ->
    (amt <> 0 -> da (get W k) = None \/ ~ Pd k) -> keep W W'.
  Proof.
    intros H Hp Hs. apply debit_spec in H as (Hw & _ & _ & Hg). eapply keep_pointwise1; [exact Hg|].
    destruct (N.eq_dec amt 0) as [->|Hne].
    - apply akeep_hdr; [reflexivity|cbn; lia].
    - destruct (Hw Hne) as (_ & Ho). apply akeep_hdr_debit; [reflexivity|apply ta_owner_none; congruence|auto].
  Qed.
  Definition kwr_ok (a : acct) (x : adata) : Prop :=
    data a = DEmpty \/ (dkind x = dkind (data a) /\ forall dp dp', data a = DDeposit dp -> x = DDeposit dp' -> dp_node dp' = dp_node dp).
  Lemma write_data_keep cx W k x W' : write_data cx W k x = Ok W' -> cx_prog cx <> KToken ->
    (cx_prog cx = KRd -> kwr_ok (get W k) x) -> keep W W'.
  Proof.
    intros H Hp Hs. apply write_data_spec in H as (_ & Ho & _ & Hg). eapply keep_pointwise1; [exact Hg|].
    split; [|split].
    - intros t E. apply ta_some in E as (E & _). congruence.
    - intros dp E. apply da_some in E as (E1 & E2). assert (Hrd : cx_prog cx = KRd) by congruence.
      destruct (Hs Hrd) as [N|(Hk & Hn)]; [congruence|]. rewrite E2 in Hk. destruct x; try discriminate Hk.
      exists d. split; [apply da_some; cbn; auto|]. split; [eapply Hn; eauto|]. cbn. lia.
    - intros E1 E2. assert (Hrd : cx_prog cx = KRd) by congruence.
      destruct (Hs Hrd) as [N|(Hk & Hn)]; [contradiction|]. cbn. auto.
  Qed.
  Lemma try_initialize_keep cx W k len x W' : try_initialize cx W k len x = Ok W' -> cx_prog cx <> KToken -> keep W W'.
  Proof.
    intros H Hp. apply try_initialize_ok in H as (_ & He & _ & Ho & ->). apply keep_put.
    apply akeep_free.
    - apply ta_owner_none. congruence.
    - unfold da. rewrite He. destruct (key_eqb _ KRd); reflexivity.
    - intros _. exact He.
  Qed.
  Lemma try_initialize_kd cx W k len x W' : try_initialize cx W k len x = Ok W' -> cx_prog cx = KRd -> kd W' k (dkind x).
  Proof.
    intros H Hp. apply try_initialize_ok in H as (_ & _ & _ & Ho & ->). split; rewrite Lemmas_RdSpecs.get_put_same; cbn; congruence.
  Qed.
  Lemma resize_keep cx W k n W' : resize cx W k n = Ok W' -> keep W W'.
  Proof.
    intros H. apply resize_spec in H as (_ & _ & _ & _ & Hg). eapply keep_pointwise1; [exact Hg|].
    apply akeep_same; cbn; auto; lia.
  Qed.

  (* System program *)
  Lemma sys_transfer_core_keep W ms from to amt W' : sys_transfer_core W ms from to amt = Ok W' -> keep W W'.
  Proof.
    intros H. apply sys_transfer_core_spec in H as (_ & _ & _ & Ho & _ & Hg). apply keep_hdr_up.
    - intros k. rewrite Hg. reflexivity.
    - intros k Hk. rewrite Hg. cbn. destruct (key_eqb_spec from k) as [->|_]; [|lia]. destruct Ho as [Ho| ->]; [congruence|lia].
  Qed.
  Lemma sys_transfer_keep cx W from to amt pdas W' : sys_transfer cx W from to amt pdas = Ok W' -> keep W W'.
  Proof. unfold sys_transfer. intros H. rg_inv H. eapply sys_transfer_core_keep; eassumption. Qed.
  Lemma sys_create_account_core_keep W ms from to lam space own W' :
    sys_create_account_core W ms from to lam space own = Ok W' -> keep W W'.
  Proof.
    unfold sys_create_account_core. intros H. repeat rg_inv H. rg_norm.
    eapply keep_trans; [|eapply sys_transfer_core_keep; exact H]. apply keep_put.
    apply akeep_notrd_nottok; match goal with Ho : owner _ = KSystem |- _ => rewrite Ho end; discriminate.
  Qed.
  Lemma create_account_keep cx W payer new len own add W' : create_account cx W payer new len own add = Ok W' -> keep W W'.
  Proof.
    intros H. pose proof (create_account_ok _ _ _ _ _ _ _ _ H) as (Ho & _ & _ & _ & _ & Hf).
    apply create_account_ok_lam in H as (Hl & _). intros k. destruct (key_eq_dec k new) as [->|Hne].
    - apply akeep_notrd_nottok; rewrite Ho; discriminate.
    - destruct (key_eq_dec (owner (get W k)) KSystem) as [E|E].
      + apply akeep_notrd_nottok; rewrite E; discriminate.
      + apply akeep_hdr; [apply Hf, Hne|apply Hl; assumption].
  Qed.
  Lemma create_token_account_keep cx W payer new mint town W' :
    create_token_account cx W payer new mint town = Ok W' -> keep W W'.
  Proof.
    intros H. pose proof (create_token_account_ok _ _ _ _ _ _ _ H) as (Ho & _). intros k.
    destruct (key_eq_dec k new) as [->|Hne].
    - apply akeep_notrd_nottok; rewrite Ho; discriminate.
    - destruct (create_token_account_other _ _ _ _ _ _ _ k H Hne) as (Hh & Hl).
      destruct (key_eq_dec (owner (get W k)) KSystem) as [E|E].
      + apply akeep_notrd_nottok; rewrite E; discriminate.
      + apply akeep_hdr; [exact Hh|apply Hl, E].
  Qed.

  (* SPL Token: the debited account is (src, token-owner auth) *)
  Lemma akeep_tok_set k a t n : ta a = Some t -> (Pt k (t_owner t) -> t_amount t <= n) ->
    akeep k a (a <| data := DToken (t <| t_amount := n |>) |>).
  Proof.
    intros Ht Hn. pose proof Ht as Ht'. apply ta_some in Ht' as (Ho & Hd). split; [|split].
    - intros t0 E. rewrite Ht in E. injection E as <-. split; [cbn; lia|]. exists n. split; [|exact Hn].
      apply ta_some. cbn. auto.
    - intros dp E. apply da_some in E as (E & _). congruence.
    - intros E. congruence.
  Qed.
  Lemma tok_transfer_core_keep W ms src dst auth amt chk W' :
    tok_transfer_core W ms src dst auth amt chk = Ok W' -> (is_signer ms auth = true -> ~ Pt src auth) -> keep W W'.
  Proof.
    intros H Hs. apply tok_transfer_core_spec in H as (s & d & H1 & H2 & _ & _ & Ha & Hsig & _ & _ & Hsame & Hdiff).
    specialize (Hs Hsig). apply tok_at_as_token in H1, H2.
    destruct (key_eq_dec src dst) as [E|E]; [apply keep_ext, Hsame, E|].
    destruct (Hdiff E) as (_ & Hg). intros k. rewrite Hg.
    destruct (key_eqb_spec src k) as [<-|]; [apply akeep_tok_set; [exact H1|]; rewrite Ha; intros HP; contradiction|].
    destruct (key_eqb_spec dst k) as [<-|]; [apply akeep_tok_set; [exact H2|]; intros _; lia|]. apply akeep_refl.
  Qed.
  Lemma cpi_signer_3 cx callee a b c pdas ms : cpi_metas cx callee [a; b; c] pdas = Ok ms -> msigner c = true ->
    is_signer (cx_metas cx) (mkey c) = true \/ pda_signs (cx_prog cx) (mkey c) pdas = true.
  Proof.
    intros H Hc. apply Lemmas_RdGuards.cpi_metas_ok in H as (_ & Hin). destruct (Hin c) as (_ & _ & Hs); [cbn; auto|]. auto.
  Qed.
  Lemma cpi_signer_4 cx callee a b c d pdas ms : cpi_metas cx callee [a; b; c; d] pdas = Ok ms -> msigner d = true ->
    is_signer (cx_metas cx) (mkey d) = true \/ pda_signs (cx_prog cx) (mkey d) pdas = true.
  Proof.
    intros H Hc. apply Lemmas_RdGuards.cpi_metas_ok in H as (_ & Hin). destruct (Hin d) as (_ & _ & Hs); [cbn; auto|]. auto.
  Qed.
  Definition cpi_auth (cx : ctx) (auth : key) (pdas : list key) : Prop :=
    is_signer (cx_metas cx) auth = true \/ pda_signs (cx_prog cx) auth pdas = true.
  Lemma tok_transfer_keep cx W src dst auth amt pdas W' :
    tok_transfer cx W src dst auth amt pdas = Ok W' -> (cpi_auth cx auth pdas -> ~ Pt src auth) -> keep W W'.
  Proof.
    unfold tok_transfer. intros H Hs. rg_inv H. eapply tok_transfer_core_keep; [exact H|]. intros _. apply Hs.
    apply (cpi_signer_3 _ _ _ _ _ _ _ E). reflexivity.
  Qed.
  Lemma tok_transfer_checked_keep cx W src mint dst auth amt dec pdas W' :
    tok_transfer_checked cx W src mint dst auth amt dec pdas = Ok W' -> (cpi_auth cx auth pdas -> ~ Pt src auth) -> keep W W'.
  Proof.
    unfold tok_transfer_checked. intros H Hs. rg_inv H. eapply tok_transfer_core_keep; [exact H|]. intros _. apply Hs.
    apply (cpi_signer_4 _ _ _ _ _ _ _ _ E). reflexivity.
  Qed.
  Lemma tok_burn_core_keep W ms acc mint auth amt W' :
    tok_burn_core W ms acc mint auth amt = Ok W' -> (is_signer ms auth = true -> ~ Pt acc auth) -> keep W W'.
  Proof.
    intros H Hs. apply tok_burn_core_spec in H as (s & m & H1 & H2 & _ & _ & Ha & Hsig & _ & _ & Hg).
    specialize (Hs Hsig). apply tok_at_as_token in H1. apply Lemmas_RdSpecs.as_mint_ok in H2 as (Hmd & Hmo).
    intros k. rewrite Hg.
    destruct (key_eqb_spec acc k) as [<-|]; [apply akeep_tok_set; [exact H1|]; rewrite Ha; intros HP; contradiction|].
    destruct (key_eqb_spec mint k) as [<-|]; [|apply akeep_refl].
    apply akeep_free; [unfold ta; rewrite Hmd; destruct (key_eqb _ KToken); reflexivity|apply da_owner_none; rewrite Hmo; discriminate|].
    intros E. congruence.
  Qed.
  Lemma tok_burn_keep cx W acc mint auth amt pdas W' :
    tok_burn cx W acc mint auth amt pdas = Ok W' -> (cpi_auth cx auth pdas -> ~ Pt acc auth) -> keep W W'.
  Proof.
    unfold tok_burn. intros H Hs. rg_inv H. eapply tok_burn_core_keep; [exact H|]. intros _. apply Hs.
    apply (cpi_signer_3 _ _ _ _ _ _ _ E). reflexivity.
  Qed.
  Lemma distribute_loop_keep cx recips : forall W ms remaining src auth pdas acc W' tot ms',
    distribute_loop cx W ms recips remaining src auth pdas acc = Ok (W', tot, ms') ->
    (cpi_auth cx auth pdas -> ~ Pt src auth) -> keep W W'.
  Proof.
    induction recips as [|[rk share] tl IH]; intros W ms remaining src auth pdas acc W' tot ms' H Hs; cbn [distribute_loop] in H.
    - injection H as <- _ _. apply keep_refl.
    - repeat rg_inv H. eapply keep_trans; [eapply tok_transfer_keep; eassumption|]. eapply IH; eassumption.
  Qed.

  (* the DequeueFills CPI: the mock swap program rewrites its own registry; scripted programs touch nothing *)
  Lemma sw_dequeue_fills_keep cx W sol W' rep : sw_dequeue_fills cx W sol = Ok (W', rep) -> keep W W'.
  Proof.
    intros H. apply sw_dequeue_fills_spec in H as (mc & ms & mf & mj & rest & _ & _ & _ & _ & _ & Ho & r & r' & z & _ & _ & _ & _ & Hg).
    eapply keep_pointwise1; [exact Hg|]. apply akeep_notrd_nottok; rewrite Ho; discriminate.
  Qed.
  Lemma swap_dequeue_cpi_keep cx W swap cfg st fills jk sol pdas W' rep :
    swap_dequeue_cpi cx W swap cfg st fills jk sol pdas = Ok (W', rep) -> keep W W'.
  Proof.
    intros H. destruct (swap_dequeue_cpi_programs _ _ _ _ _ _ _ _ _ _ _ H) as [->|[n ->]].
    - unfold swap_dequeue_cpi in H. rg_inv H. eapply sw_dequeue_fills_keep; eassumption.
    - apply swap_dequeue_cpi_rogue_spec in H. subst. apply keep_refl.
  Qed.
End Keep.

(* ------------------------------------------------------------------ 4. the stepping tactic for `keep` *)
Lemma pda_signs_single prog k x : pda_signs prog k [x] = true -> k = x /\ pda_program x = Some prog.
Proof.
  unfold pda_signs. cbn [existsb]. rewrite orb_false_r. intros H. apply andb_true_iff in H as (E & H). apply key_eqb_eq in E. subst x.
  split; [reflexivity|]. destruct (pda_program k) as [p|]; [|discriminate H]. apply key_eqb_eq in H. congruence.
Qed.

Ltac k_keys :=
  repeat match goal with
  | E : mkey ?m = _ |- context [mkey ?m] => rewrite E
  end.
(* hooks: how to refute protection of a debited token account / deposit (set per lemma) *)
Ltac k_tok := fail.
Ltac k_pd := fail.
Ltac k_side :=
  first
  [ assumption
  | match goal with
    | Hcx : cx_prog ?cx = _ |- cx_prog ?cx <> KToken => rewrite Hcx; discriminate
    | |- cx_prog _ <> KToken => cbn; discriminate
    | Hcx : cx_prog ?cx = _ |- cx_prog ?cx = KRd -> _ => let E := fresh in intros E; rewrite Hcx in E; discriminate E
    | |- cx_prog ?cx = KRd -> kwr_ok (get ?W ?k) ?x =>
        intros _; right;
        match goal with
        | F : kd W k ?c |- _ =>
            split; [ destruct F as [_ F]; rewrite F; reflexivity
                   | let dp := fresh in let dp' := fresh in let E1 := fresh in let E2 := fresh in
                     intros dp dp' E1 E2;
                     first [ destruct F as [_ F]; rewrite E1 in F; discriminate F
                           | match goal with Hd : data (get W k) = _ |- _ =>
                               rewrite Hd in E1; injection E1 as <-; injection E2 as <-; reflexivity end ] ]
        end
    | |- _ <> 0 -> da (get ?W ?k) = None \/ _ =>
        intros _;
        first [ left; match goal with F : kd W k ?c |- _ => apply (kd_da_none _ _ _ F); discriminate end
              | left; match goal with Ho : owner (get W k) = _ |- _ => apply da_owner_none; rewrite Ho; discriminate end
              | right; k_pd ]
    | |- cpi_auth _ _ _ -> ~ _ => k_keys; k_tok
    | |- is_signer _ _ = true -> ~ _ => k_keys; k_tok
    end ].

Ltac k_fwd Pt Pd S :=
  lazymatch type of S with
  | keep _ _ ?W ?W2 =>
    repeat match goal with
    | F : kd W ?k ?c |- _ =>
        lazymatch goal with
        | _ : kd W2 k c |- _ => fail
        | _ => assert (kd W2 k c) by (apply (kd_fwd Pt Pd W W2 k c S); [discriminate|exact F])
        end
    end
  end.

(* E : prim .. = Ok W2  ==>  S : keep Pt Pd W W2 *)
Ltac k_prim Pt Pd E S :=
  lazymatch type of E with
  | credit _ ?W _ _ = Ok ?W2 => pose proof (credit_keep Pt Pd _ _ _ _ _ E) as S
  | debit _ ?W _ _ = Ok ?W2 => assert (S : keep Pt Pd W W2) by (eapply debit_keep; [exact E|k_side|k_side])
  | set_lamports_to_zero _ ?W _ = Ok ?W2 =>
      unfold set_lamports_to_zero in E; assert (S : keep Pt Pd W W2) by (eapply debit_keep; [exact E|k_side|k_side])
  | write_data _ ?W _ _ = Ok ?W2 => assert (S : keep Pt Pd W W2) by (eapply write_data_keep; [exact E|k_side|k_side])
  | put_dist _ ?W _ _ _ = Ok ?W2 => unfold put_dist in E; assert (S : keep Pt Pd W W2) by (eapply write_data_keep; [exact E|k_side|k_side])
  | try_initialize _ ?W ?k _ ?x = Ok ?W2 =>
      assert (S : keep Pt Pd W W2) by (eapply try_initialize_keep; [exact E|k_side]);
      try (let F := fresh "F" in
           assert (F : kd W2 k (dkind x)) by (eapply try_initialize_kd; [exact E|assumption]); cbn [dkind] in F)
  | resize _ ?W _ _ = Ok ?W2 => pose proof (resize_keep Pt Pd _ _ _ _ _ E) as S
  | sys_transfer _ ?W _ _ _ _ = Ok ?W2 => pose proof (sys_transfer_keep Pt Pd _ _ _ _ _ _ _ E) as S
  | create_account _ ?W _ _ _ _ _ = Ok ?W2 => pose proof (create_account_keep Pt Pd _ _ _ _ _ _ _ _ E) as S
  | create_token_account _ ?W _ _ _ _ = Ok ?W2 => pose proof (create_token_account_keep Pt Pd _ _ _ _ _ _ _ E) as S
  | tok_transfer _ ?W _ _ _ _ _ = Ok ?W2 => assert (S : keep Pt Pd W W2) by (eapply tok_transfer_keep; [exact E|k_side])
  | tok_transfer_checked _ ?W _ _ _ _ _ _ _ = Ok ?W2 =>
      assert (S : keep Pt Pd W W2) by (eapply tok_transfer_checked_keep; [exact E|k_side])
  | tok_burn _ ?W _ _ _ _ _ = Ok ?W2 => assert (S : keep Pt Pd W W2) by (eapply tok_burn_keep; [exact E|k_side])
  | distribute_loop _ ?W _ _ _ _ _ _ _ = Ok (?W2, _, _) =>
      assert (S : keep Pt Pd W W2) by (eapply distribute_loop_keep; [exact E|k_side])
  | swap_dequeue_cpi _ ?W _ _ _ _ _ _ _ = Ok (?W2, _) => pose proof (swap_dequeue_cpi_keep Pt Pd _ _ _ _ _ _ _ _ _ _ _ E) as S
  | sw_dequeue_fills _ ?W _ = Ok (?W2, _) => pose proof (sw_dequeue_fills_keep Pt Pd _ _ _ _ _ E) as S
  end.

Ltac k_kd Ho Hd := let F := fresh "F" in pose proof (kd_of _ _ _ _ Ho Hd eq_refl) as F; cbn [dkind] in F.
Ltac k_read E :=
  let Ho := fresh "Ho" in let Hd := fresh "Hd" in
  first
  [ apply rd_verified_ok in E; destruct E as (?m & ?a & ?Ems & -> & _ & Ho & Hd & _ & ?Hrole); let F := fresh "F" in pose proof (kd_of _ _ _ _ Ho Hd eq_refl) as F; cbn [dkind] in F
  | apply rd_zc_config_ok in E; destruct E as (?m & ?Ems & -> & _ & Ho & Hd); let F := fresh "F" in pose proof (kd_of _ _ _ _ Ho Hd eq_refl) as F; cbn [dkind] in F
  | apply rd_zc_dist_ok in E; destruct E as (?m & ?Ems & -> & _ & Ho & Hd); let F := fresh "F" in pose proof (kd_of _ _ _ _ Ho Hd eq_refl) as F; cbn [dkind] in F
  | apply rd_zc_journal_ok in E; destruct E as (?m & ?Ems & -> & _ & Ho & Hd); let F := fresh "F" in pose proof (kd_of _ _ _ _ Ho Hd eq_refl) as F; cbn [dkind] in F
  | apply rd_zc_deposit_ok in E; destruct E as (?m & ?Ems & -> & _ & Ho & Hd); let F := fresh "F" in pose proof (kd_of _ _ _ _ Ho Hd eq_refl) as F; cbn [dkind] in F
  | apply rd_zc_contrib_ok in E; destruct E as (?m & ?Ems & -> & _ & Ho & Hd); let F := fresh "F" in pose proof (kd_of _ _ _ _ Ho Hd eq_refl) as F; cbn [dkind] in F
  | apply pp_verified_ok in E; destruct E as (?m & ?a & ?Ems & -> & -> & _ & Ho & Hd & _)
  | apply pp_zc_config_ok in E; destruct E as (?m & ?Ems & -> & Ho & Hd)
  | apply pp_zc_request_ok in E; destruct E as (?m & ?Ems & -> & Ho & Hd)
  | apply Lemmas_Hist.sw_zc_fills_ok in E; destruct E as (?m & ?Ems & -> & Ho & Hd)
  | apply next_2z_token_pda_ok in E; destruct E as (?m & ?Ems & ?Ek & ->)
  | (match type of E with require _ _ = Ok ?u => destruct u end; apply require_ok in E; apply key_eqb_eq in E) ].

Ltac k_char E :=
  lazymatch goal with
  | |- keep ?Pt ?Pd _ _ =>
      first [ k_read E
            | let S := fresh "S" in k_prim Pt Pd E S; k_fwd Pt Pd S; apply (keep_trans Pt Pd _ _ _ S); clear E
            | idtac ]
  end.
Ltac k_step H :=
  cbv zeta in H;
  lazymatch type of H with
  | bind ?m _ = Ok _ =>
      let E := fresh "E" in destruct m eqn:E; cbn [bind] in H; [|discriminate H];
      repeat lazymatch type of H with (let '(_, _) := ?p in _) = Ok _ => destruct p end;
      k_char E
  | (if ?b then _ else _) = Ok _ => destruct b eqn:?
  | match ?x with _ => _ end = Ok _ => destruct x eqn:?; try discriminate H
  end.
Ltac k_final H :=
  lazymatch goal with
  | |- keep ?Pt ?Pd _ _ =>
      first [ injection H as <-; apply keep_refl
            | let S := fresh "S" in k_prim Pt Pd H S; exact S ]
  end.
Ltac k_go H := repeat k_step H; k_final H.

(* ------------------------------------------------------------------ 5. processors without Token debits and without deposit debits *)
Section Procs.
  Variable Pt : key -> key -> Prop.
  Variable Pd : key -> Prop.
  Notation keep := (keep Pt Pd).

  Lemma pp_process_keep cx W ix W' : pp_process cx W ix = Ok W' -> cx_prog cx = KPassport -> keep W W'.
  Proof.
    destruct ix; cbn [pp_process]; intros H Hcx.
    - unfold pp_initialize_program in H. k_go H.
    - unfold pp_set_admin in H. k_go H.
    - unfold pp_configure_program in H. k_go H.
    - unfold pp_request_access in H. k_go H.
    - unfold pp_grant_access in H. k_go H.
    - unfold pp_deny_access in H. k_go H.
  Qed.

  Lemma sw_initialize_keep cx W W' : sw_initialize cx W = Ok W' -> cx_prog cx = KSwapMock -> keep W W'.
  Proof. unfold sw_initialize. intros H Hcx. k_go H. Qed.

  Lemma rd_initialize_program_keep cx W W' : rd_initialize_program cx W = Ok W' -> cx_prog cx = KRd -> keep W W'.
  Proof. unfold rd_initialize_program. intros H Hcx. k_go H. Qed.
  Lemma rd_set_admin_keep cx W k W' : rd_set_admin cx W k = Ok W' -> cx_prog cx = KRd -> keep W W'.
  Proof. unfold rd_set_admin. intros H Hcx. k_go H. Qed.
  Lemma rd_migrate_keep cx W W' : rd_migrate cx W = Ok W' -> cx_prog cx = KRd -> keep W W'.
  Proof. unfold rd_migrate. intros H Hcx. k_go H. Qed.
  Lemma rd_configure_program_keep cx W s W' : rd_configure_program cx W s = Ok W' -> cx_prog cx = KRd -> keep W W'.
  Proof. unfold rd_configure_program. intros H Hcx. k_go H. Qed.
  Lemma rd_initialize_journal_keep cx W W' : rd_initialize_journal cx W = Ok W' -> cx_prog cx = KRd -> keep W W'.
  Proof. unfold rd_initialize_journal. intros H Hcx. k_go H. Qed.
  Lemma rd_configure_debt_keep cx W n debt root W' : rd_configure_debt cx W n debt root = Ok W' -> cx_prog cx = KRd -> keep W W'.
  Proof. unfold rd_configure_debt. intros H Hcx. k_go H. Qed.
  Lemma rd_finalize_debt_keep cx W W' : rd_finalize_debt cx W = Ok W' -> cx_prog cx = KRd -> keep W W'.
  Proof. unfold rd_finalize_debt, grow_and_fund. intros H Hcx. k_go H. Qed.
  Lemma rd_configure_rewards_keep cx W n root W' : rd_configure_rewards cx W n root = Ok W' -> cx_prog cx = KRd -> keep W W'.
  Proof. unfold rd_configure_rewards. intros H Hcx. k_go H. Qed.
  Lemma rd_finalize_rewards_keep cx W W' : rd_finalize_rewards cx W = Ok W' -> cx_prog cx = KRd -> keep W W'.
  Proof. unfold rd_finalize_rewards, grow_and_fund. intros H Hcx. k_go H. Qed.
  Lemma rd_initialize_contributor_keep cx W svc W' : rd_initialize_contributor cx W svc = Ok W' -> cx_prog cx = KRd -> keep W W'.
  Proof. unfold rd_initialize_contributor. intros H Hcx. k_go H. Qed.
  Lemma rd_set_rewards_manager_keep cx W k W' : rd_set_rewards_manager cx W k = Ok W' -> cx_prog cx = KRd -> keep W W'.
  Proof. unfold rd_set_rewards_manager. intros H Hcx. k_go H. Qed.
  Lemma rd_configure_contributor_keep cx W s W' : rd_configure_contributor cx W s = Ok W' -> cx_prog cx = KRd -> keep W W'.
  Proof. unfold rd_configure_contributor. intros H Hcx. k_go H. Qed.
  Lemma rd_verify_root_keep cx W kind p W' : rd_verify_root cx W kind p = Ok W' -> cx_prog cx = KRd -> keep W W'.
  Proof. unfold rd_verify_root. intros H Hcx. k_go H. Qed.
  Lemma rd_initialize_deposit_keep cx W node W' : rd_initialize_deposit cx W node = Ok W' -> cx_prog cx = KRd -> keep W W'.
  Proof. unfold rd_initialize_deposit. intros H Hcx. k_go H. Qed.
  Lemma rd_enable_write_off_keep cx W W' : rd_enable_write_off cx W = Ok W' -> cx_prog cx = KRd -> keep W W'.
  Proof. unfold rd_enable_write_off. intros H Hcx. k_go H. Qed.
  Lemma rd_write_off_keep cx W amount p W' : rd_write_off cx W amount p = Ok W' -> cx_prog cx = KRd -> keep W W'.
  Proof. unfold rd_write_off. intros H Hcx. k_go H. Qed.
  Lemma rd_initialize_swap_destination_keep cx W W' : rd_initialize_swap_destination cx W = Ok W' -> cx_prog cx = KRd -> keep W W'.
  Proof. unfold rd_initialize_swap_destination. intros H Hcx. k_go H. Qed.
  Lemma rd_withdraw_sol_keep cx W amount W' : rd_withdraw_sol cx W amount = Ok W' -> cx_prog cx = KRd -> keep W W'.
  Proof. unfold rd_withdraw_sol. intros H Hcx. k_go H. Qed.

  (* the four processors with a Token debit or a deposit debit: `keep` for every protection their privileges cannot reach *)
  Ltac k_tok ::= solve [eauto].
  Ltac k_pd ::= solve [auto].
  Lemma rd_initialize_distribution_keep cx W W' : rd_initialize_distribution cx W = Ok W' -> cx_prog cx = KRd ->
    (forall jk, cpi_auth cx jk [KRdJournal] -> ~ Pt (KAta jk KMint) jk) -> keep W W'.
  Proof. unfold rd_initialize_distribution. intros H Hcx HPt. k_go H. Qed.
  Ltac k_tok ::= (let A := fresh in intros A;
                  match goal with HP : forall mc md rest e, cx_metas _ = _ -> _ |- _ => eapply HP; [|exact A] end;
                  repeat match goal with E : ?l = _ :: _ |- _ => is_var l; subst l end; eassumption).
  (* md: the meta naming the distribution (second account of the instruction) *)
  Lemma rd_distribute_rewards_keep cx W us ebr p W' : rd_distribute_rewards cx W us ebr p = Ok W' -> cx_prog cx = KRd ->
    (forall mc md rest e, cx_metas cx = mc :: md :: rest -> cpi_auth cx (mkey md) [KRdDist e] -> ~ Pt (KTok2z (mkey md)) (mkey md)) ->
    keep W W'.
  Proof.
    unfold rd_distribute_rewards. intros H Hcx HPt. k_go H.
  Qed.
  Ltac k_tok ::= solve [eauto].
  Lemma rd_sweep_keep cx W W' : rd_sweep cx W = Ok W' -> cx_prog cx = KRd ->
    (cpi_auth cx KRdSwapAuth [KRdSwapAuth] -> ~ Pt (KTok2z KRdSwapAuth) KRdSwapAuth) -> keep W W'.
  Proof. unfold rd_sweep. intros H Hcx HPt. k_go H. Qed.
  Lemma rd_pay_debt_keep cx W amount p W' : rd_pay_debt cx W amount p = Ok W' -> cx_prog cx = KRd ->
    (forall k, ~ Pd k) -> keep W W'.
  Proof. unfold rd_pay_debt. intros H Hcx HPd. k_go H. Qed.

  (* the mock swap program and the WithdrawSol CPI *)
  Lemma withdraw_sol_cpi_keep cx W cfg auth jk dest sol sib W' : withdraw_sol_cpi cx W cfg auth jk dest sol sib = Ok W' -> keep W W'.
  Proof. unfold withdraw_sol_cpi. intros H. rg_inv H. eapply rd_withdraw_sol_keep; [exact H|reflexivity]. Qed.
  Lemma sw_buy_sol_keep cx W z sol W' : sw_buy_sol cx W z sol = Ok W' -> cx_prog cx = KSwapMock ->
    (forall src auth, cpi_auth cx auth [] -> ~ Pt src auth) -> keep W W'.
  Proof.
    unfold sw_buy_sol. intros H Hcx HPt. repeat k_step H. eapply withdraw_sol_cpi_keep; exact H.
  Qed.
  Lemma sw_process_keep cx W ix W' : sw_process cx W ix = Ok W' -> cx_prog cx = KSwapMock ->
    (forall src auth, cpi_auth cx auth [] -> ~ Pt src auth) -> keep W W'.
  Proof.
    destruct ix; cbn [sw_process]; intros H Hcx HPt.
    - eapply sw_initialize_keep; eassumption.
    - eapply sw_buy_sol_keep; eassumption.
    - k_go H.
  Qed.
End Procs.

Lemma keep_weaken (Pt Pt' : key -> key -> Prop) (Pd Pd' : key -> Prop) W W' :
  (forall k ow, Pt' k ow -> Pt k ow) -> (forall k, Pd' k -> Pd k) -> keep Pt Pd W W' -> keep Pt' Pd' W W'.
Proof.
  intros HP HD H k. destruct (H k) as (T & D & K). split; [|split; [|exact K]].
  - intros t Ht. destruct (T t Ht) as (L & n' & E & M). split; [exact L|]. exists n'. split; [exact E|]. intros X. apply M, HP, X.
  - intros dp Hd. destruct (D dp Hd) as (dp' & E & N & M). exists dp'. split; [exact E|]. split; [exact N|]. intros X. apply M, HD, X.
Qed.

(* ------------------------------------------------------------------ 6. what the privilege rule leaves protected *)
(* the one token account of token-owner `ow` that instruction `ix` debits with ow's PDA signature *)
Definition tok_src (ix : rd_ix) (ow : key) : option key :=
  match ix, ow with
  | RDistributeRewards _ _ _, KRdDist e => Some (KTok2z (KRdDist e))
  | RInitializeDistribution, KRdJournal => Some (KAta KRdJournal KMint)
  | RSweep, KRdSwapAuth => Some (KTok2z KRdSwapAuth)
  | _, _ => None
  end.
Definition is_pay (ix : rd_ix) : bool := match ix with RPayDebt _ _ => true | _ => false end.
(* protected: the token-owner did not sign the frame, and the account is not the one the instruction's PDA seeds open *)
Definition PtI (ms : list meta) (ix : rd_ix) (k ow : key) : Prop := is_signer ms ow = false /\ tok_src ix ow <> Some k.
Definition PdI (ix : rd_ix) (k : key) : Prop := is_pay ix = false.

Lemma cpi_auth_rd cx auth x : cx_prog cx = KRd -> cpi_auth cx auth [x] -> is_signer (cx_metas cx) auth = true \/ auth = x.
Proof. intros Hcx [A|A]; [left; exact A|right]. apply pda_signs_single in A as (A & _). exact A. Qed.

Theorem rd_process_keep cx W ix W' : rd_process cx W ix = Ok W' -> cx_prog cx = KRd ->
  keep (PtI (cx_metas cx) ix) (PdI ix) W W'.
Proof.
  intros H Hcx. destruct ix; cbn [rd_process] in H.
  - eapply rd_initialize_program_keep; eassumption.
  - eapply rd_migrate_keep; eassumption.
  - eapply rd_set_admin_keep; eassumption.
  - eapply rd_configure_program_keep; eassumption.
  - eapply rd_initialize_journal_keep; eassumption.
  - eapply rd_initialize_distribution_keep; [eassumption|exact Hcx|].
    intros jk A [B C]. apply (cpi_auth_rd _ _ _ Hcx) in A as [A|A]; [congruence|]. subst jk. apply C. reflexivity.
  - eapply rd_configure_debt_keep; eassumption.
  - eapply rd_finalize_debt_keep; eassumption.
  - eapply rd_configure_rewards_keep; eassumption.
  - eapply rd_finalize_rewards_keep; eassumption.
  - eapply rd_distribute_rewards_keep; [eassumption|exact Hcx|].
    intros mc md rest e _ A [B C]. apply (cpi_auth_rd _ _ _ Hcx) in A as [A|A]; [congruence|]. rewrite A in C. apply C. reflexivity.
  - eapply rd_initialize_contributor_keep; eassumption.
  - eapply rd_set_rewards_manager_keep; eassumption.
  - eapply rd_configure_contributor_keep; eassumption.
  - eapply rd_verify_root_keep; eassumption.
  - eapply rd_initialize_deposit_keep; eassumption.
  - eapply rd_pay_debt_keep; [eassumption|exact Hcx|]. intros k0 X. discriminate X.
  - eapply rd_enable_write_off_keep; eassumption.
  - eapply rd_write_off_keep; eassumption.
  - eapply rd_initialize_swap_destination_keep; eassumption.
  - eapply rd_sweep_keep; [eassumption|exact Hcx|]. intros _ [B C]. apply C. reflexivity.
  - eapply rd_withdraw_sol_keep; eassumption.
Qed.

(* any instruction of any program, rogue CPI wrappers included *)
Definition PtD (ms : list meta) (d : ixdata) (k ow : key) : Prop :=
  is_signer ms ow = false /\ match rd_frame d with Some ix => tok_src ix ow <> Some k | None => True end.
Definition PdD (d : ixdata) (k : key) : Prop := match rd_frame d with Some ix => is_pay ix = false | None => True end.

Lemma cpi_auth_nil cx auth : cpi_auth cx auth [] -> is_signer (cx_metas cx) auth = true.
Proof. intros [A|A]; [exact A|discriminate A]. Qed.

Theorem exec_data_keep : forall d prog ms h sib W W', exec_data prog d ms h sib W = Ok W' -> keep (PtD ms d) (PdD d) W W'.
Proof.
  induction d as [i|i|i|amt|lam space o|amt|amt dec|amt|inner IH|z sol|]; intros prog ms h sib W W' H;
    cbn [exec_data] in H; apply bind_ok in H as (W1 & E & H); apply bind_ok in H as (u & _ & H); injection H as <-;
    destruct prog; try discriminate E; try (injection E as <-; apply keep_refl).
  - eapply pp_process_keep; [exact E|reflexivity].
  - eapply keep_weaken; [| |eapply rd_process_keep; [exact E|reflexivity]].
    + intros k ow [A B]. split; [exact A|exact B].
    + intros k A. exact A.
  - eapply sw_process_keep; [exact E|reflexivity|]. intros src auth A [B _]. apply cpi_auth_nil in A. cbn [cx_metas] in A. congruence.
  - rg_inv E. eapply sys_transfer_core_keep; exact E.
  - rg_inv E. eapply sys_create_account_core_keep; exact E.
  - rg_inv E. eapply tok_transfer_core_keep; [exact E|]. intros A [B _]. congruence.
  - rg_inv E. eapply tok_transfer_core_keep; [exact E|]. intros A [B _]. congruence.
  - rg_inv E. eapply tok_burn_core_keep; [exact E|]. intros A [B _]. congruence.
  - destruct ms as [|callee rest]; [discriminate E|]. apply bind_ok in E as (ms' & E0 & E).
    eapply keep_weaken; [| |eapply IH; exact E].
    + intros k ow [A B]. split; [|exact B]. destruct (is_signer ms' ow) eqn:S; [|reflexivity].
      apply (cpi_metas_signer _ _ _ _ _ E0) in S. cbn [cx_metas] in S. congruence.
    + intros k A. exact A.
  - rg_inv E. match type of E with (if ?b then _ else _) = Ok _ => destruct b end.
    + rg_inv E. eapply keep_trans; [|eapply withdraw_sol_cpi_keep; exact E].
      eapply tok_transfer_checked_keep; [eassumption|]. intros A [B _]. apply cpi_auth_nil in A. cbn [cx_metas] in A. congruence.
    + revert E. destruct (nthk ms 8); intros E; try discriminate E. rg_inv E.
      eapply withdraw_sol_cpi_keep; exact E.
Qed.

(* the revenue-distribution instruction at the bottom of the wrappers ran on the very same world, as program KRd, and with
   no more signers than the outermost frame had *)
Theorem exec_data_rd_frame : forall d prog ms h sib W W' ix, exec_data prog d ms h sib W = Ok W' -> rd_frame d = Some ix ->
  exists cx, cx_prog cx = KRd /\ (forall x, is_signer (cx_metas cx) x = true -> is_signer ms x = true) /\ rd_process cx W ix = Ok W'.
Proof.
  induction d as [i|i|i|amt|lam space o|amt|amt dec|amt|inner IH|z sol|]; intros prog ms h sib W W' ix H F;
    cbn [rd_frame] in F; try discriminate F;
    cbn [exec_data] in H; apply bind_ok in H as (W1 & E & H); apply bind_ok in H as (u & _ & H); injection H as <-;
    destruct prog; try discriminate E.
  - injection F as <-. eexists. split; [|split; [|exact E]]; [reflexivity|auto].
  - destruct ms as [|callee rest]; [discriminate E|]. apply bind_ok in E as (ms' & E0 & E).
    destruct (IH _ _ _ _ _ _ _ E F) as (cx & Hp & Hs & Hr). exists cx. split; [exact Hp|]. split; [|exact Hr].
    intros x S. apply Hs in S. apply (cpi_metas_signer _ _ _ _ _ E0) in S. exact S.
Qed.

(* ------------------------------------------------------------------ 7. C02, one instruction (any program, any depth of rogue wrappers) *)
Lemma tamount_inj t n1 n2 : t <| t_amount := n1 |> = t <| t_amount := n2 |> -> n1 = n2.
Proof. intros H. apply (f_equal t_amount) in H. exact H. Qed.
Lemma option_key_dec (a b : option key) : {a = b} + {a <> b}.
Proof. decide equality. apply key_eq_dec. Qed.

Section OneInstruction.
  Variables (d : ixdata) (prog : key) (ms : list meta) (h : N) (sib : option sibling) (W W' : world).
  Hypothesis Hx : exec_data prog d ms h sib W = Ok W'.

  (* a token account is never closed, retyped, re-owned or drained of lamports by an instruction *)
  Theorem token_account_persists k t : tok_at W k = Some t ->
    lamports (get W k) <= lamports (get W' k) /\ exists n', tok_at W' k = Some (t <| t_amount := n' |>).
  Proof.
    intros Ht. destruct (exec_data_keep _ _ _ _ _ _ _ Hx k) as (T & _). destruct (T t Ht) as (L & n' & E & _). eauto.
  Qed.
  (* THE PRIVILEGE RULE: the amount of a token account whose token-owner did not sign the instruction's frame decreases
     only when the instruction is (a wrapper around) the one RD instruction that opens this very account with the
     token-owner's PDA seeds: tok_src lists them all *)
  Theorem token_debit_only_via k t : tok_at W k = Some t -> is_signer ms (t_owner t) = false ->
    exists n', tok_at W' k = Some (t <| t_amount := n' |>) /\
      (n' < t_amount t -> exists ix, rd_frame d = Some ix /\ tok_src ix (t_owner t) = Some k).
  Proof.
    intros Ht Hs. destruct (exec_data_keep _ _ _ _ _ _ _ Hx k) as (T & _). destruct (T t Ht) as (_ & n' & E & M).
    exists n'. split; [exact E|]. intros Hlt. unfold PtD in M. destruct (rd_frame d) as [ix|].
    - exists ix. split; [reflexivity|]. destruct (option_key_dec (tok_src ix (t_owner t)) (Some k)) as [Y|N]; [exact Y|].
      exfalso. assert (t_amount t <= n') by (apply M; auto). lia.
    - exfalso. assert (t_amount t <= n') by (apply M; auto). lia.
  Qed.
End OneInstruction.

(* distribute-rewards debits no token account but the custody account of the distribution it names *)
Lemma rd_distribute_rewards_only_custody cx W us ebr p W' : rd_distribute_rewards cx W us ebr p = Ok W' -> cx_prog cx = KRd ->
  forall mc md rest, cx_metas cx = mc :: md :: rest -> keep (fun k _ => k <> KTok2z (mkey md)) (fun _ => True) W W'.
Proof.
  intros H Hcx mc md rest Ems. eapply rd_distribute_rewards_keep; [exact H|exact Hcx|].
  intros mc' md' rest' e Ems' _ X. rewrite Ems in Ems'. injection Ems' as _ <- _. apply X. reflexivity.
Qed.
(* ... and signs the Token CPIs with the seeds of the epoch stored in that distribution *)
Lemma rd_distribute_rewards_auth cx W us ebr p W' : rd_distribute_rewards cx W us ebr p = Ok W' ->
  exists mc md rest dd tail, cx_metas cx = mc :: md :: rest /\ data (get W (mkey md)) = DDist dd tail /\
    cpi_auth cx (mkey md) [KRdDist (d_epoch dd)].
Proof.
  unfold rd_distribute_rewards. intros H. repeat (rg_inv H; cbv zeta in H).
  match goal with E : rd_zc_config _ _ _ = Ok _ |- _ => apply rd_zc_config_ok in E as (mc & Ems & _) end.
  match goal with E : rd_zc_dist _ _ _ = Ok _ |- _ => apply rd_zc_dist_ok in E as (md & -> & -> & _ & Ho & Hd) end.
  match goal with E : tok_burn _ _ _ _ _ _ _ = Ok _ |- _ => unfold tok_burn in E; rg_inv E end.
  match goal with E : cpi_metas _ _ _ _ = Ok _ |- _ => apply cpi_signer_3 in E; [|reflexivity] end.
  eexists mc, md, _, _, _. split; [exact Ems|]. split; [exact Hd|]. assumption.
Qed.

Section Custody.
  Variables (d : ixdata) (prog : key) (ms : list meta) (h : N) (sib : option sibling) (W W' : world) (e : N) (k : key) (t : token_acct).
  Hypothesis Hx : exec_data prog d ms h sib W = Ok W'.
  Hypothesis Hs : is_signer ms (KRdDist e) = false.
  Hypothesis Ht : tok_at W k = Some t.
  Hypothesis Ho : t_owner t = KRdDist e.

  (* GOAL A.  A token account whose token-owner is the distribution PDA of epoch e - in particular the custody account
     KTok2z (KRdDist e) - stays that token account; its amount decreases only if it IS the custody account and the instruction
     is (a wrapper around) RDistributeRewards executed by program KRd on this world, naming distribution e; the amount that
     leaves is the share of the Spec (Lemmas_RdSpecs5.distribute_outcome), under the Spec's two side conditions *)
  Theorem custody_debit_only_by_distribute :
    lamports (get W k) <= lamports (get W' k) /\
    exists n', tok_at W' k = Some (t <| t_amount := n' |>) /\
      (n' < t_amount t ->
         k = KTok2z (KRdDist e) /\
         exists us ebr p cx, rd_frame d = Some (RDistributeRewards us ebr p) /\ cx_prog cx = KRd /\
           (forall x, is_signer (cx_metas cx) x = true -> is_signer ms x = true) /\
           rd_distribute_rewards cx W us ebr p = Ok W' /\
           exists c dd tail crk cr relayer idx tail',
             distribute_guards cx W us ebr p c (KRdDist e) dd tail crk cr relayer idx tail' /\ d_epoch dd = e /\
             (d_cbr dd <= US32_MAX -> sumN (map snd (cr_recipients cr)) <= US16_MAX ->
                exists share_amt burn0 transferred burn s0 m,
                  distribute_outcome W W' us ebr (KRdDist e) dd tail' cr relayer share_amt burn0 transferred burn s0 m /\
                  share_amt <= t_amount t /\ n' = t_amount t - share_amt)).
  Proof.
    split; [apply (token_account_persists _ _ _ _ _ _ _ Hx _ _ Ht)|].
    rewrite <- Ho in Hs. destruct (token_debit_only_via _ _ _ _ _ _ _ Hx _ _ Ht Hs) as (n' & E & M). rewrite Ho in Hs.
    exists n'. split; [exact E|]. intros Hlt. destruct (M Hlt) as (ix & F & Src). rewrite Ho in Src.
    destruct ix; cbn [tok_src] in Src; try discriminate Src. injection Src as <-. split; [reflexivity|].
    destruct (exec_data_rd_frame _ _ _ _ _ _ _ _ Hx F) as (cx & Hp & Hsig & Hr). cbn [rd_process] in Hr.
    exists unit_share, ebr, p, cx. split; [exact F|]. split; [exact Hp|]. split; [exact Hsig|]. split; [exact Hr|].
    destruct (rd_distribute_rewards_spec _ _ _ _ _ _ Hr) as (c & dk & dd & tail & crk & cr & relayer & idx & tail' & G & O).
    (* the distribution named by the instruction is the one of epoch e *)
    pose proof (dg_metas _ _ _ _ _ _ _ _ _ _ _ _ _ _ G) as (mc & md & mcr & mtk & mmint & mrel & mtok & atas & rest & Ems & Hdk & _).
    pose proof (rd_distribute_rewards_only_custody _ _ _ _ _ _ Hr Hp _ _ _ Ems (KTok2z (KRdDist e))) as (T & _).
    destruct (T t Ht) as (_ & n2 & E2 & M2). unfold tok_at in E. rewrite E in E2. injection E2 as E2. subst n2.
    assert (Edk : mkey md = KRdDist e).
    { destruct (key_eq_dec (KTok2z (KRdDist e)) (KTok2z (mkey md))) as [Y|N]; [injection Y as Y; congruence|].
      exfalso. specialize (M2 N). lia. }
    subst dk. rewrite Edk in *.
    exists c, dd, tail, crk, cr, relayer, idx, tail'. split; [exact G|]. split.
    { destruct (rd_distribute_rewards_auth _ _ _ _ _ _ Hr) as (mc' & md' & rest' & dd' & tail2 & Ems' & Hd' & A).
      rewrite Ems in Ems'. injection Ems' as _ <- _. rewrite Edk in Hd', A.
      rewrite (dg_dist_data _ _ _ _ _ _ _ _ _ _ _ _ _ _ G) in Hd'. injection Hd' as <- _.
      apply (cpi_auth_rd _ _ _ Hp) in A as [A|A]; [apply Hsig in A; congruence|]. injection A as A. auto. }
    intros C1 C2. destruct (O C1 C2) as (share_amt & burn0 & transferred & burn & s0 & m & Out).
    exists share_amt, burn0, transferred, burn, s0, m. split; [exact Out|].
    destruct (distribute_custody_after _ _ _ _ _ _ _ _ _ _ _ _ _ _ _ Out) as (A1 & A2 & A3 & _).
    apply tok_at_as_token in A1, A2. unfold tok_at in A1, A2, Ht. rewrite Ht in A1. injection A1 as <-.
    rewrite E in A2. injection A2 as A2. auto.
  Qed.
End Custody.

(* the complete list of PDA-signed Token debits of the revenue-distribution program *)
Theorem tok_src_table ix ow k : tok_src ix ow = Some k <->
  (exists us ebr p e, ix = RDistributeRewards us ebr p /\ ow = KRdDist e /\ k = KTok2z (KRdDist e)) \/
  (ix = RInitializeDistribution /\ ow = KRdJournal /\ k = KAta KRdJournal KMint) \/
  (ix = RSweep /\ ow = KRdSwapAuth /\ k = KTok2z KRdSwapAuth).
Proof.
  split.
  - destruct ix; cbn [tok_src]; try discriminate; destruct ow; try discriminate; intros H; injection H as <-.
    + right; left. auto.
    + left. eexists _, _, _, _. eauto.
    + right; right. auto.
  - intros [(us & ebr & p & e & -> & -> & ->)|[(-> & -> & ->)|(-> & -> & ->)]]; reflexivity.
Qed.

Section OtherCustodies.
  Variables (d : ixdata) (prog : key) (ms : list meta) (h : N) (sib : option sibling) (W W' : world) (k : key) (t : token_acct).
  Hypothesis Hx : exec_data prog d ms h sib W = Ok W'.
  Hypothesis Ht : tok_at W k = Some t.
  Hypothesis Hs : is_signer ms (t_owner t) = false.

  (* token accounts of the journal PDA: only the journal's ATA is ever debited, by InitializeDistribution (the prepaid-2Z
     sweep); the journal's own 2Z account KTok2z KRdJournal is never debited *)
  Theorem journal_tokens_debit_only_by_initialize_distribution : t_owner t = KRdJournal ->
    exists n', tok_at W' k = Some (t <| t_amount := n' |>) /\
      (n' < t_amount t -> k = KAta KRdJournal KMint /\ mentions RInitializeDistribution d).
  Proof.
    intros Ho. destruct (token_debit_only_via _ _ _ _ _ _ _ Hx _ _ Ht Hs) as (n' & E & M). exists n'. split; [exact E|].
    intros Hlt. destruct (M Hlt) as (ix & F & Src). rewrite Ho in Src. apply tok_src_table in Src.
    destruct Src as [(us & ebr & p & e & _ & X & _)|[(-> & _ & ->)|(_ & X & _)]]; try discriminate X.
    split; [reflexivity|]. apply rd_frame_mentions, F.
  Qed.
  Theorem journal_2z_never_debited : t_owner t = KRdJournal -> k = KTok2z KRdJournal ->
    exists n', tok_at W' k = Some (t <| t_amount := n' |>) /\ t_amount t <= n'.
  Proof.
    intros Ho Hk. destruct (journal_tokens_debit_only_by_initialize_distribution Ho) as (n' & E & M). exists n'. split; [exact E|].
    destruct (N.lt_ge_cases n' (t_amount t)) as [Hlt|Hge]; [|exact Hge]. destruct (M Hlt) as (X & _). rewrite Hk in X. discriminate X.
  Qed.
  (* the swap destination (token-owner = swap-authority PDA): debited only by Sweep, only KTok2z KRdSwapAuth *)
  Theorem swap_destination_debit_only_by_sweep : t_owner t = KRdSwapAuth ->
    exists n', tok_at W' k = Some (t <| t_amount := n' |>) /\ (n' < t_amount t -> k = KTok2z KRdSwapAuth /\ mentions RSweep d).
  Proof.
    intros Ho. destruct (token_debit_only_via _ _ _ _ _ _ _ Hx _ _ Ht Hs) as (n' & E & M). exists n'. split; [exact E|].
    intros Hlt. destruct (M Hlt) as (ix & F & Src). rewrite Ho in Src. apply tok_src_table in Src.
    destruct Src as [(us & ebr & p & e & _ & X & _)|[(_ & X & _)|(-> & _ & ->)]]; try discriminate X.
    split; [reflexivity|]. apply rd_frame_mentions, F.
  Qed.
  (* every other unsigned token-owner - the reserve KTok2z KRdConfig (token-owner KRdConfig), deposits, contributor records,
     passport / swap PDAs, wallets that did not sign, ... : never debited *)
  Theorem other_tokens_never_debited :
    (forall e, t_owner t <> KRdDist e) -> t_owner t <> KRdJournal -> t_owner t <> KRdSwapAuth ->
    exists n', tok_at W' k = Some (t <| t_amount := n' |>) /\ t_amount t <= n'.
  Proof.
    intros H1 H2 H3. destruct (token_debit_only_via _ _ _ _ _ _ _ Hx _ _ Ht Hs) as (n' & E & M). exists n'. split; [exact E|].
    destruct (N.lt_ge_cases n' (t_amount t)) as [Hlt|Hge]; [|exact Hge]. destruct (M Hlt) as (ix & F & Src).
    apply tok_src_table in Src. destruct Src as [(us & ebr & p & e & _ & X & _)|[(_ & X & _)|(_ & X & _)]]; [destruct (H1 _ X)|contradiction|contradiction].
  Qed.
  Corollary reserve_2z_never_debited : t_owner t = KRdConfig ->
    exists n', tok_at W' k = Some (t <| t_amount := n' |>) /\ t_amount t <= n'.
  Proof. intros Ho. apply other_tokens_never_debited; rewrite Ho; discriminate. Qed.
End OtherCustodies.

(* ------------------------------------------------------------------ 8. transactions *)
Definition PtT (t : tx) (k ow : key) : Prop :=
  ~ In ow (tx_signers t) /\ forall i ix, In i (tx_ixs t) -> rd_frame (i_data i) = Some ix -> tok_src ix ow <> Some k.
Definition PdT (t : tx) (k : key) : Prop := forall i ix, In i (tx_ixs t) -> rd_frame (i_data i) = Some ix -> is_pay ix = false.

Lemma exec_ixs_keep t : forall ixs prev W W', incl ixs (tx_ixs t) -> exec_ixs t ixs prev W = Ok W' -> keep (PtT t) (PdT t) W W'.
Proof.
  induction ixs as [|i tl IH]; intros prev W W' Hin H; cbn [exec_ixs] in H.
  - injection H as <-. apply keep_refl.
  - apply bind_ok in H as (W1 & E & H). eapply keep_trans; [|eapply IH; [|exact H]; intros x Hx; apply Hin; right; exact Hx].
    eapply keep_weaken; [| |eapply exec_data_keep; exact E].
    + intros k ow [A B]. split.
      * destruct (is_signer (effective t (i_metas i)) ow) eqn:S; [|reflexivity]. apply effective_signer in S. contradiction.
      * destruct (rd_frame (i_data i)) as [ix|] eqn:F; [|exact I]. eapply B; [apply Hin; left; reflexivity|exact F].
    + intros k A. unfold PdD. destruct (rd_frame (i_data i)) as [ix|] eqn:F; [|exact I]. eapply A; [apply Hin; left; reflexivity|exact F].
Qed.
Lemma exec_tx_fail W t W' : exec_tx W t = (W', false) -> W' = W.
Proof.
  unfold exec_tx. destruct (negb (tx_wf t)); [intros H; injection H as <-; reflexivity|].
  destruct (exec_ixs t (tx_ixs t) None W) as [W1|]; [|intros H; injection H as <-; reflexivity].
  destruct (rent_ok t W W1); [discriminate|intros H; injection H as <-; reflexivity].
Qed.
Lemma tx_wf_pda_unsigned t ow : tx_wf t = true -> (forall n, ow <> KUser n) -> ~ In ow (tx_signers t).
Proof. intros Hwf Hn Hin. destruct (tx_signer_wallet _ _ Hwf Hin) as (n & E). exact (Hn n E). Qed.

Section TxToken.
  Variables (W : world) (t : tx) (W' : world) (ok : bool) (k : key) (tk : token_acct).
  Hypothesis Htx : exec_tx W t = (W', ok).
  Hypothesis Ht : tok_at W k = Some tk.
  Hypothesis Hl : lamports (get W k) <> 0.

  (* a funded token account survives every transaction *)
  Theorem tx_token_account_persists :
    lamports (get W k) <= lamports (get W' k) /\ exists n', tok_at W' k = Some (tk <| t_amount := n' |>).
  Proof.
    destruct ok.
    - apply exec_tx_ok_inv in Htx as (_ & W1 & E & ->).
      pose proof (exec_ixs_keep t _ _ _ _ (incl_refl _) E k) as (T & _). destruct (T tk Ht) as (L & n' & E1 & _).
      unfold tok_at. rewrite get_purge. destruct (N.eqb_spec (lamports (get W1 k)) 0) as [Z|_]; [lia|]. eauto.
    - apply exec_tx_fail in Htx. subst W'. split; [lia|]. exists (t_amount tk). rewrite set_tamount_id. exact Ht.
  Qed.
  (* a transaction debits a token account whose token-owner is not among its signers only if it succeeds and contains
     (possibly under rogue wrappers) the RD instruction that opens this account with the token-owner's PDA seeds *)
  Theorem tx_token_debit_only_via : ~ In (t_owner tk) (tx_signers t) ->
    exists n', tok_at W' k = Some (tk <| t_amount := n' |>) /\
      (n' < t_amount tk -> ok = true /\ exists i ix, In i (tx_ixs t) /\ rd_frame (i_data i) = Some ix /\ tok_src ix (t_owner tk) = Some k).
  Proof.
    intros Hs. destruct ok.
    - apply exec_tx_ok_inv in Htx as (_ & W1 & E & ->).
      pose proof (exec_ixs_keep t _ _ _ _ (incl_refl _) E k) as (T & _). destruct (T tk Ht) as (L & n' & E1 & M).
      exists n'. split.
      + unfold tok_at. rewrite get_purge. destruct (N.eqb_spec (lamports (get W1 k)) 0) as [Z|_]; [lia|]. exact E1.
      + intros Hlt. split; [reflexivity|].
        (* some instruction must lift the protection *)
        assert (X : ~ (forall i ix, In i (tx_ixs t) -> rd_frame (i_data i) = Some ix -> tok_src ix (t_owner tk) <> Some k)).
        { intros A. assert (t_amount tk <= n') by (apply M; split; assumption). lia. }
        clear - X. induction (tx_ixs t) as [|i tl IH]; [exfalso; apply X; intros i ix []|].
        destruct (rd_frame (i_data i)) as [ix|] eqn:F.
        * destruct (option_key_dec (tok_src ix (t_owner tk)) (Some k)) as [Y|N].
          { exists i, ix. split; [left; reflexivity|]. auto. }
          destruct IH as (i' & ix' & Hin & F' & Y').
          { intros A. apply X. intros i0 ix0 [<-|Hin] F0; [rewrite F in F0; injection F0 as <-; exact N|eapply A; eassumption]. }
          exists i', ix'. split; [right; exact Hin|auto].
        * destruct IH as (i' & ix' & Hin & F' & Y').
          { intros A. apply X. intros i0 ix0 [<-|Hin] F0; [congruence|eapply A; eassumption]. }
          exists i', ix'. split; [right; exact Hin|auto].
    - apply exec_tx_fail in Htx. subst W'. exists (t_amount tk). rewrite set_tamount_id. split; [exact Ht|lia].
  Qed.
End TxToken.

Lemma set_tamount_twice t a b : t <| t_amount := a |> <| t_amount := b |> = t <| t_amount := b |>.
Proof. destruct t; reflexivity. Qed.

(* GOAL A, transactions: any transaction (any programs, any signers, any wrappers; failed ones change nothing) *)
Theorem tx_custody_debit_only_by_distribute W t W' ok e k tk :
  exec_tx W t = (W', ok) -> tok_at W k = Some tk -> t_owner tk = KRdDist e -> lamports (get W k) <> 0 ->
  lamports (get W k) <= lamports (get W' k) /\
  exists n', tok_at W' k = Some (tk <| t_amount := n' |>) /\
    (n' < t_amount tk -> ok = true /\ k = KTok2z (KRdDist e) /\
       exists i us ebr p, In i (tx_ixs t) /\ mentions (RDistributeRewards us ebr p) (i_data i)).
Proof.
  intros Htx Ht Ho Hl. split; [apply (tx_token_account_persists _ _ _ _ _ _ Htx Ht Hl)|].
  destruct (tx_wf t) eqn:Hwf.
  - destruct (tx_token_debit_only_via _ _ _ _ _ _ Htx Ht Hl) as (n' & E & M).
    { apply tx_wf_pda_unsigned; [exact Hwf|]. rewrite Ho. discriminate. }
    exists n'. split; [exact E|]. intros Hlt. destruct (M Hlt) as (-> & i & ix & Hin & F & Src). split; [reflexivity|].
    rewrite Ho in Src. apply tok_src_table in Src.
    destruct Src as [(us & ebr & p & e' & -> & X & ->)|[(_ & X & _)|(_ & X & _)]]; try discriminate X. injection X as <-.
    split; [reflexivity|]. exists i, us, ebr, p. split; [exact Hin|]. apply rd_frame_mentions, F.
  - unfold exec_tx in Htx. rewrite Hwf in Htx. cbn [negb] in Htx. injection Htx as <- <-.
    exists (t_amount tk). rewrite set_tamount_id. split; [exact Ht|lia].
Qed.

(* the first instruction of a list at which the amount goes down: until then it never went below the initial amount *)
Lemma exec_ixs_first_debit t k : forall ixs prev W W' tk n', exec_ixs t ixs prev W = Ok W' ->
  tok_at W k = Some tk -> tok_at W' k = Some (tk <| t_amount := n' |>) -> n' < t_amount tk ->
  exists i prev' Wa Wb na nb, In i ixs /\ exec_data (i_prog i) (i_data i) (effective t (i_metas i)) 1 prev' Wa = Ok Wb /\
    tok_at Wa k = Some (tk <| t_amount := na |>) /\ t_amount tk <= na /\ tok_at Wb k = Some (tk <| t_amount := nb |>) /\ nb < na.
Proof.
  induction ixs as [|i tl IH]; intros prev W W' tk n' H Ht Ht' Hlt; cbn [exec_ixs] in H.
  - injection H as <-. rewrite Ht in Ht'. injection Ht' as Ht'. apply (f_equal t_amount) in Ht'. cbn in Ht'. lia.
  - apply bind_ok in H as (W1 & E & H). destruct (token_account_persists _ _ _ _ _ _ _ E _ _ Ht) as (_ & n1 & E1).
    destruct (N.lt_ge_cases n1 (t_amount tk)) as [Hd|Hd].
    + exists i, prev, W, W1, (t_amount tk), n1. split; [left; reflexivity|]. split; [exact E|]. rewrite set_tamount_id.
      split; [exact Ht|]. split; [lia|]. split; [exact E1|exact Hd].
    + destruct (IH _ _ _ (tk <| t_amount := n1 |>) n' H E1) as (i' & p' & Wa & Wb & na & nb & Hin & Hx & Ha & Hle & Hb & Hnb).
      { rewrite set_tamount_twice. exact Ht'. }
      { cbn. lia. }
      exists i', p', Wa, Wb, na, nb. rewrite set_tamount_twice in Ha, Hb. cbn in Hle.
      split; [right; exact Hin|]. split; [exact Hx|]. split; [exact Ha|]. split; [lia|]. split; [exact Hb|exact Hnb].
Qed.
(* ... so every debit of a custody account inside a transaction is a step to which custody_debit_only_by_distribute applies
   (with its Spec and exact amount): here the first one *)
Theorem tx_custody_first_debit W t W' e k tk n' :
  exec_tx W t = (W', true) -> tok_at W k = Some tk -> t_owner tk = KRdDist e -> lamports (get W k) <> 0 ->
  tok_at W' k = Some (tk <| t_amount := n' |>) -> n' < t_amount tk ->
  exists i prev Wa Wb na nb, In i (tx_ixs t) /\
    exec_data (i_prog i) (i_data i) (effective t (i_metas i)) 1 prev Wa = Ok Wb /\
    is_signer (effective t (i_metas i)) (KRdDist e) = false /\
    tok_at Wa k = Some (tk <| t_amount := na |>) /\ t_amount tk <= na /\ tok_at Wb k = Some (tk <| t_amount := nb |>) /\ nb < na.
Proof.
  intros Htx Ht Ho Hl Ht' Hlt. apply exec_tx_ok_inv in Htx as (Hwf & W1 & E & ->).
  pose proof (exec_ixs_keep t _ _ _ _ (incl_refl _) E k) as (T & _). destruct (T tk Ht) as (L & n1 & E1 & _).
  unfold tok_at in Ht'. rewrite get_purge in Ht'. destruct (N.eqb_spec (lamports (get W1 k)) 0) as [Z|_]; [lia|].
  destruct (exec_ixs_first_debit t k _ _ _ _ _ _ E Ht Ht' Hlt) as (i & p' & Wa & Wb & na & nb & Hin & Hx & R).
  exists i, p', Wa, Wb, na, nb. split; [exact Hin|]. split; [exact Hx|]. split; [|exact R].
  destruct (is_signer (effective t (i_metas i)) (KRdDist e)) eqn:S; [|reflexivity].
  apply effective_signer in S. destruct (tx_signer_wallet _ _ Hwf S) as (n & X). discriminate X.
Qed.

(* ------------------------------------------------------------------ 9. histories of honest operations *)
Lemma step_token W o k tk : honest_op o -> wallet_pays o -> (forall n, k <> KUser n) ->
  tok_at W k = Some tk -> lamports (get W k) <> 0 ->
  lamports (get W k) <= lamports (get (step W o) k) /\
  exists n', tok_at (step W o) k = Some (tk <| t_amount := n' |>) /\ (n' < t_amount tk -> exists t, o = OTx t).
Proof.
  intros Ho Hw Hk Ht Hl. pose proof Ht as Ht0. apply ta_some in Ht0 as (Hown & Hdat).
  assert (Same : forall W2, get W2 k = get W k -> lamports (get W k) <= lamports (get W2 k) /\
            exists n', tok_at W2 k = Some (tk <| t_amount := n' |>) /\ (n' < t_amount tk -> exists t, o = OTx t)).
  { intros W2 E. unfold tok_at. rewrite E. split; [lia|]. exists (t_amount tk). rewrite set_tamount_id. split; [exact Ht|lia]. }
  destruct o as [t|ts|ak lam|fk fa|mk_ amt|payer o_]; unfold step; cbn [exec_op].
  - destruct (exec_tx W t) as [W2 ok] eqn:E. cbn [fst].
    destruct (tx_token_account_persists _ _ _ _ _ _ E Ht Hl) as (L & n' & E'). split; [exact L|]. exists n'. split; [exact E'|eauto].
  - cbn [fst]. apply Same. reflexivity.
  - cbn [fst]. destruct (key_eq_dec ak k) as [->|Hne].
    + rewrite Lemmas_RdSpecs.get_put_same. unfold tok_at. rewrite Lemmas_RdSpecs.get_put_same. cbn. split; [lia|].
      exists (t_amount tk). rewrite set_tamount_id. split; [|lia]. apply ta_some. cbn. auto.
    + apply Same. apply Lemmas_RdSpecs.get_put_other. exact Hne.
  - destruct Ho.
  - destruct (as_token W mk_) as [t1|] eqn:E1; [|apply Same; reflexivity].
    destruct (as_mint W KMint) as [m|] eqn:E2; [|apply Same; reflexivity]. cbn [fst].
    apply Lemmas_RdSpecs.as_mint_ok in E2 as (Hmd & Hmo).
    assert (Hkm : k <> KMint) by (intros ->; congruence).
    unfold tok_at. rewrite Lemmas_RdSpecs.get_put_other by congruence. rewrite get_put_token.
    destruct (key_eqb_spec mk_ k) as [->|Hne].
    + apply tok_at_as_token in E1. rewrite Ht in E1. injection E1 as <-. cbn. split; [lia|].
      exists (t_amount tk + amt). split; [apply ta_some; cbn; auto|lia].
    + split; [lia|]. exists (t_amount tk). rewrite set_tamount_id. split; [exact Ht|lia].
  - destruct (_ && _) eqn:Ec; [|apply Same; reflexivity]. cbn [fst].
    apply andb_true_iff in Ec as (Ec & _). apply andb_true_iff in Ec as (_ & Eo). apply key_eqb_eq in Eo.
    destruct Hw as (n & ->).
    assert (Hka : k <> KAta o_ KMint) by (intros ->; congruence).
    apply Same. rewrite !Lemmas_RdSpecs.get_put_other by (try congruence; apply not_eq_sym, Hk). reflexivity.
Qed.

(* any token account whose token-owner is not a wallet (a PDA, a program id, ...): transactions *)
Theorem tx_pda_token_debit_only_via W t W' ok k tk :
  exec_tx W t = (W', ok) -> tok_at W k = Some tk -> lamports (get W k) <> 0 -> (forall n, t_owner tk <> KUser n) ->
  lamports (get W k) <= lamports (get W' k) /\
  exists n', tok_at W' k = Some (tk <| t_amount := n' |>) /\
    (n' < t_amount tk -> ok = true /\ exists i ix, In i (tx_ixs t) /\ rd_frame (i_data i) = Some ix /\ tok_src ix (t_owner tk) = Some k).
Proof.
  intros Htx Ht Hl Ho. split; [apply (tx_token_account_persists _ _ _ _ _ _ Htx Ht Hl)|].
  destruct (tx_wf t) eqn:Hwf.
  - apply (tx_token_debit_only_via _ _ _ _ _ _ Htx Ht Hl). apply tx_wf_pda_unsigned; assumption.
  - unfold exec_tx in Htx. rewrite Hwf in Htx. cbn [negb] in Htx. injection Htx as <- <-.
    exists (t_amount tk). rewrite set_tamount_id. split; [exact Ht|lia].
Qed.

(* ... and histories of honest operations (transactions of any kind, clock, airdrops, mints, ATA creation paid by wallets):
   the account stays that token account, and if its amount at the end is lower than at the start then some transaction of
   the history contains (possibly wrapped) the RD instruction that opens it with its token-owner's PDA seeds *)
Theorem token_history k : (forall n, k <> KUser n) -> forall ops W tk,
  Forall honest_op ops -> Forall wallet_pays ops -> tok_at W k = Some tk -> (forall n, t_owner tk <> KUser n) ->
  lamports (get W k) <> 0 ->
  lamports (get (run W ops) k) <> 0 /\
  exists n', tok_at (run W ops) k = Some (tk <| t_amount := n' |>) /\
    (n' < t_amount tk -> exists t i ix, In (OTx t) ops /\ In i (tx_ixs t) /\ rd_frame (i_data i) = Some ix /\ tok_src ix (t_owner tk) = Some k).
Proof.
  intros Hk ops. induction ops as [|o tl IH]; intros W tk Hh Hw Ht Ho Hl.
  - cbn. split; [exact Hl|]. exists (t_amount tk). rewrite set_tamount_id. split; [exact Ht|lia].
  - rewrite run_cons. inversion Hh as [|? ? Hho Hh']; inversion Hw as [|? ? Hwo Hw']; subst.
    destruct (step_token W o k tk Hho Hwo Hk Ht Hl) as (L1 & n1 & E1 & M1).
    assert (Hl1 : lamports (get (step W o) k) <> 0) by lia.
    destruct (IH (step W o) (tk <| t_amount := n1 |>) Hh' Hw' E1 Ho Hl1) as (Lr & n' & E' & M').
    split; [exact Lr|]. exists n'. rewrite set_tamount_twice in E'. split; [exact E'|]. intros Hlt. cbn in M'.
    destruct (N.lt_ge_cases n1 (t_amount tk)) as [Hd|Hd].
    + destruct (M1 Hd) as (t & ->). unfold step in E1. cbn [exec_op] in E1. destruct (exec_tx W t) as [W2 ok] eqn:Etx. cbn [fst] in E1.
      destruct (tx_pda_token_debit_only_via _ _ _ _ _ _ Etx Ht Hl Ho) as (_ & n2 & E2 & M2).
      unfold tok_at in E1, E2. rewrite E1 in E2. injection E2 as E2. subst n2.
      destruct (M2 Hd) as (_ & i & ix & Hin & R). exists t, i, ix. split; [left; reflexivity|auto].
    + destruct M' as (t & i & ix & Hin & R); [lia|]. exists t, i, ix. split; [right; exact Hin|exact R].
Qed.

(* GOAL A, histories: the custody account of distribution e *)
Theorem custody_history e ops W tk : let k := KTok2z (KRdDist e) in
  Forall honest_op ops -> Forall wallet_pays ops -> tok_at W k = Some tk -> t_owner tk = KRdDist e -> lamports (get W k) <> 0 ->
  lamports (get (run W ops) k) <> 0 /\
  exists n', tok_at (run W ops) k = Some (tk <| t_amount := n' |>) /\
    (n' < t_amount tk -> exists t i us ebr p, In (OTx t) ops /\ In i (tx_ixs t) /\ mentions (RDistributeRewards us ebr p) (i_data i)).
Proof.
  intros k Hh Hw Ht Ho Hl.
  destruct (token_history k ltac:(discriminate) ops W tk Hh Hw Ht ltac:(rewrite Ho; discriminate) Hl) as (L & n' & E & M).
  split; [exact L|]. exists n'. split; [exact E|]. intros Hlt. destruct (M Hlt) as (t & i & ix & Hin & Hi & F & Src).
  rewrite Ho in Src. apply tok_src_table in Src.
  destruct Src as [(us & ebr & p & e' & -> & _ & _)|[(_ & X & _)|(_ & X & _)]]; try discriminate X.
  exists t, i, us, ebr, p. split; [exact Hin|]. split; [exact Hi|]. apply rd_frame_mentions, F.
Qed.
(* the journal's 2Z account and the reserve (token-owners KRdJournal / KRdConfig): never debited along a history *)
Theorem journal_reserve_history k ops W tk :
  (k = KTok2z KRdJournal /\ t_owner tk = KRdJournal) \/ (k = KTok2z KRdConfig /\ t_owner tk = KRdConfig) ->
  Forall honest_op ops -> Forall wallet_pays ops -> tok_at W k = Some tk -> lamports (get W k) <> 0 ->
  exists n', tok_at (run W ops) k = Some (tk <| t_amount := n' |>) /\ t_amount tk <= n'.
Proof.
  intros Hc Hh Hw Ht Hl.
  assert (Hk : forall n, k <> KUser n) by (destruct Hc as [[-> _]|[-> _]]; discriminate).
  assert (Ho : forall n, t_owner tk <> KUser n) by (destruct Hc as [[_ ->]|[_ ->]]; discriminate).
  destruct (token_history k Hk ops W tk Hh Hw Ht Ho Hl) as (_ & n' & E & M). exists n'. split; [exact E|].
  destruct (N.lt_ge_cases n' (t_amount tk)) as [Hlt|Hge]; [|exact Hge]. exfalso.
  destruct (M Hlt) as (t & i & ix & _ & _ & _ & Src). apply tok_src_table in Src.
  destruct Hc as [[-> Eo]|[-> Eo]]; rewrite Eo in Src;
    destruct Src as [(us & ebr & p & e' & _ & X & _)|[(_ & X & Y)|(_ & X & _)]]; try discriminate X; discriminate Y.
Qed.
(* the swap destination (token-owner = swap-authority PDA): debited only in a history that contains Sweep *)
Theorem swap_destination_history ops W tk : let k := KTok2z KRdSwapAuth in
  Forall honest_op ops -> Forall wallet_pays ops -> tok_at W k = Some tk -> t_owner tk = KRdSwapAuth -> lamports (get W k) <> 0 ->
  exists n', tok_at (run W ops) k = Some (tk <| t_amount := n' |>) /\
    (n' < t_amount tk -> exists t i, In (OTx t) ops /\ In i (tx_ixs t) /\ mentions RSweep (i_data i)).
Proof.
  intros k Hh Hw Ht Ho Hl.
  destruct (token_history k ltac:(discriminate) ops W tk Hh Hw Ht ltac:(rewrite Ho; discriminate) Hl) as (_ & n' & E & M).
  exists n'. split; [exact E|]. intros Hlt. destruct (M Hlt) as (t & i & ix & Hin & Hi & F & Src).
  rewrite Ho in Src. apply tok_src_table in Src.
  destruct Src as [(us & ebr & p & e' & _ & X & _)|[(_ & X & _)|(-> & _ & _)]]; try discriminate X.
  exists t, i. split; [exact Hin|]. split; [exact Hi|]. apply rd_frame_mentions, F.
Qed.

(* ------------------------------------------------------------------ 10. non-vacuity *)
Definition x02_W : world := ex_world ((KUser 7, ex_wallet 1000000) :: accts ex_distribute_world).
Definition x02_custody : key := KTok2z (KRdDist 5).
Definition x02_ix : rd_ix := RDistributeRewards 600000000 100000000 (proof_for PRE_REWARD ex_rewards 1).
Definition x02_tx : tx :=
  {| tx_signers := [KUser 7]; tx_ixs := [ {| i_prog := KRd; i_data := IxRd x02_ix; i_metas := cx_metas ex_distribute_cx |} ] |}.
(* the same instruction re-issued by a harness-only rogue program through CPI *)
Definition x02_tx_rogue : tx :=
  {| tx_signers := [KUser 7];
     tx_ixs := [ {| i_prog := KRogue 0; i_data := IxRogueCpi (IxRd x02_ix); i_metas := mk KRd false false :: cx_metas ex_distribute_cx |} ] |}.
(* attempts to move the custody's tokens without the distribution PDA's signature *)
Definition x02_tok_metas (auth : key) (auth_signs : bool) : list meta :=
  [mk x02_custody false true; mk (KAta (KUser 31) KMint) false true; mk auth auth_signs false].
Definition x02_tx_transfer (auth : key) (auth_signs : bool) : tx :=
  {| tx_signers := [KUser 31]; tx_ixs := [ {| i_prog := KToken; i_data := IxTokTransfer 100; i_metas := x02_tok_metas auth auth_signs |} ] |}.
Definition x02_tx_transfer_rogue (auth : key) (auth_signs : bool) : tx :=
  {| tx_signers := [KUser 31];
     tx_ixs := [ {| i_prog := KRogue 0; i_data := IxRogueCpi (IxTokTransfer 100);
                    i_metas := mk KToken false false :: x02_tok_metas auth auth_signs |} ] |}.
Definition x02_tx_burn_rogue : tx :=
  {| tx_signers := [KUser 31];
     tx_ixs := [ {| i_prog := KRogue 0; i_data := IxRogueCpi (IxTokBurn 100);
                    i_metas := [mk KToken false false; mk x02_custody false true; mk KMint false true; mk (KRdDist 5) false false] |} ] |}.

(* the debit does happen through the right instruction, directly and under a rogue wrapper: 10000 -> 4000, i.e. exactly the
   Spec's share floor(0.6 x (4000 + 6000)) = 6000 leaves the custody account *)
Example custody_debit_nonvacuous :
  tok_at x02_W x02_custody = Some {| t_mint := KMint; t_owner := KRdDist 5; t_amount := 10000 |} /\
  lamports (get x02_W x02_custody) <> 0 /\
  (exists W', exec_tx x02_W x02_tx = (W', true) /\
     tok_at W' x02_custody = Some {| t_mint := KMint; t_owner := KRdDist 5; t_amount := 4000 |}) /\
  (exists W', exec_tx x02_W x02_tx_rogue = (W', true) /\
     tok_at W' x02_custody = Some {| t_mint := KMint; t_owner := KRdDist 5; t_amount := 4000 |}) /\
  floor_share US32_MAX 600000000 (4000 + 6000) = 6000 /\ mentions x02_ix (i_data (hd (Build_instr KSystem IxNoop []) (tx_ixs x02_tx_rogue))).
Proof.
  split; [vm_compute; reflexivity|]. split; [vm_compute; discriminate|].
  split; [eexists; split; vm_compute; reflexivity|]. split; [eexists; split; vm_compute; reflexivity|].
  split; [vm_compute; reflexivity|reflexivity].
Qed.
(* a top-level Token transfer signed by a wallet (naming the PDA as non-signing authority, claiming it signs, or naming
   the wallet as authority), the same through a rogue CPI, and a rogue burn: all fail and change nothing *)
Example custody_attempts_fail :
  exec_tx x02_W (x02_tx_transfer (KRdDist 5) false) = (x02_W, false) /\
  exec_tx x02_W (x02_tx_transfer (KRdDist 5) true) = (x02_W, false) /\
  exec_tx x02_W (x02_tx_transfer (KUser 31) true) = (x02_W, false) /\
  exec_tx x02_W (x02_tx_transfer_rogue (KRdDist 5) false) = (x02_W, false) /\
  exec_tx x02_W (x02_tx_transfer_rogue (KRdDist 5) true) = (x02_W, false) /\
  exec_tx x02_W (x02_tx_transfer_rogue (KUser 31) true) = (x02_W, false) /\
  exec_tx x02_W x02_tx_burn_rogue = (x02_W, false) /\
  (* ... while the wallet can of course move its own tokens with the same instruction *)
  (exists W', exec_tx x02_W {| tx_signers := [KUser 31];
       tx_ixs := [ {| i_prog := KToken; i_data := IxTokTransfer 5;
                      i_metas := [mk (KAta (KUser 31) KMint) false true; mk x02_custody false true; mk (KUser 31) true false] |} ] |} = (W', true) /\
     tok_at W' x02_custody = Some {| t_mint := KMint; t_owner := KRdDist 5; t_amount := 10005 |}).
Proof. repeat split; try (vm_compute; reflexivity). eexists; split; vm_compute; reflexivity. Qed.
(* the transaction-level theorem applied to the example: its hypotheses hold and its conclusion is informative *)
Example tx_custody_theorem_nonvacuous :
  exists W' n', exec_tx x02_W x02_tx_rogue = (W', true) /\
    tok_at W' x02_custody = Some ({| t_mint := KMint; t_owner := KRdDist 5; t_amount := 10000 |} <| t_amount := n' |>) /\ n' < 10000 /\
    exists i us ebr p, In i (tx_ixs x02_tx_rogue) /\ mentions (RDistributeRewards us ebr p) (i_data i).
Proof.
  destruct (exec_tx x02_W x02_tx_rogue) as [W' ok] eqn:E.
  assert (Hok : ok = true) by (vm_compute in E; injection E as _ <-; reflexivity). subst ok.
  destruct (tx_custody_debit_only_by_distribute _ _ _ _ 5 x02_custody _ E ltac:(vm_compute; reflexivity) eq_refl ltac:(vm_compute; discriminate))
    as (_ & n' & E' & M).
  assert (Hn : n' = 4000).
  { vm_compute in E. injection E as <-. vm_compute in E'. injection E' as <-. reflexivity. }
  exists W', n'. split; [reflexivity|]. split; [exact E'|]. split; [lia|]. destruct M as (_ & _ & R); [cbn; lia|exact R].
Qed.
(* the hypothesis "the token-owner did not sign the frame" of the instruction-level theorems is needed: exec_data takes ANY
   account list, and with the PDA marked as signer (which no transaction can do: tx_wf, effective) the Token program obeys *)
Example unsigned_hypothesis_needed :
  exists W', exec_data KToken (IxTokTransfer 100) (x02_tok_metas (KRdDist 5) true) 1 None x02_W = Ok W' /\
    tok_at W' x02_custody = Some {| t_mint := KMint; t_owner := KRdDist 5; t_amount := 9900 |}.
Proof. eexists; split; vm_compute; reflexivity. Qed.

(* ==================================================================================================================
   INDEX of Lemmas_C02h.v
   1  dkind, ta / da (token / deposit view of an account), tok_at, dep_at; ta_some, da_some, tok_at_as_token, dep_at_rd_acct
   2  Section Keep (Pt : key -> key -> Prop, Pd : key -> Prop): akeep, keep (refl, trans), akeep_free / _same / _hdr / _hdr_debit,
      keep_put, keep_pointwise1, keep_ext, keep_hdr_up; kd W k c (typed KRd account of kind c), kd_fwd, kd_of, kd_da_none
   3  primitives in keep: credit, debit (side: not a protected deposit), write_data (side kwr_ok: same kind, same node),
      try_initialize, resize, sys_transfer(_core), sys_create_account_core, create_account, create_token_account,
      tok_transfer(_core/_checked), tok_burn(_core), distribute_loop (side: cpi_auth cx auth pdas -> ~ Pt src auth),
      sw_dequeue_fills, swap_dequeue_cpi
   4  tactics k_step / k_go (hooks k_tok, k_pd), k_read, k_prim, k_fwd, k_side; pda_signs_single
   5  <processor>_keep for the 6 passport, 3 mock-swap and 22 RD processors (Section Procs; side hypotheses only for
      initialize-distribution, distribute-rewards, sweep (Token debit) and pay-debt (deposit debit)), withdraw_sol_cpi_keep
   6  keep_weaken; tok_src ix ow (the PDA-signed Token debits), is_pay, PtI / PdI, rd_process_keep; PtD / PdD,
      exec_data_keep (any program, rogue wrappers), exec_data_rd_frame (the wrapped RD instruction ran on the same world)
   7  one instruction: token_account_persists, token_debit_only_via, rd_distribute_rewards_only_custody / _auth,
      custody_debit_only_by_distribute (GOAL A), tok_src_table, journal_tokens_debit_only_by_initialize_distribution,
      journal_2z_never_debited, swap_destination_debit_only_by_sweep, other_tokens_never_debited, reserve_2z_never_debited
   8  transactions: PtT / PdT, exec_ixs_keep, exec_tx_fail, tx_wf_pda_unsigned, tx_token_account_persists,
      tx_token_debit_only_via, tx_custody_debit_only_by_distribute, exec_ixs_first_debit, tx_custody_first_debit
   9  histories: step_token, tx_pda_token_debit_only_via, token_history, custody_history, journal_reserve_history,
      swap_destination_history
   10 examples: custody_debit_nonvacuous, custody_attempts_fail, tx_custody_theorem_nonvacuous, unsigned_hypothesis_needed
   ================================================================================================================== *)
