(* Byte-level codec combinators for the Borsh subset used by the three instruction enums, with their laws.
   Generic: nothing in this file mentions an instruction.  A byte is an N below 256; a byte string a list of them.
   A codec is lawful when
     sound    : wf a -> dec (enc a ++ r) = Some (a, r)          (every value parses back, whatever follows it)
     complete : dec bs = Some (a, r) -> bs = enc a ++ r /\ wf a (whatever parses is THE encoding of what came out)
   Lawful codecs are prefix codes; strict parsing (Borsh `try_from_slice`) is `parse_all`. *)
From DZ Require Import Base.

Definition bytes := list N.
Definition is_bytes (l : bytes) : Prop := Forall (fun b => b < 256) l.

Record codec (A : Type) := {
  wf  : A -> Prop;
  enc : A -> bytes;
  dec : bytes -> option (A * bytes)
}.
Arguments wf {A}. Arguments enc {A}. Arguments dec {A}.

Definition sound {A} (c : codec A) := forall a r, wf c a -> dec c (enc c a ++ r) = Some (a, r).
Definition complete {A} (c : codec A) := forall bs a r, dec c bs = Some (a, r) -> bs = enc c a ++ r /\ wf c a.
Definition lawful {A} (c : codec A) := sound c /\ complete c.
Definition nonempty {A} (c : codec A) := forall a, wf c a -> enc c a <> [].

(* ---------------------------------------------------------------- unit (no payload) *)
Definition c_unit : codec unit := {| wf := fun _ => True; enc := fun _ => []; dec := fun bs => Some (tt, bs) |}.
Lemma c_unit_lawful : lawful c_unit.
Proof. split; [intros [] r _; reflexivity | intros bs [] r H; cbn in H; inversion H; subst; cbn; auto]. Qed.

(* ---------------------------------------------------------------- little-endian unsigned integers of w bytes *)
Fixpoint le_enc (w : nat) (n : N) : bytes :=
  match w with O => [] | S k => (n mod 256) :: le_enc k (n / 256) end.
Fixpoint le_dec (w : nat) (bs : bytes) : option (N * bytes) :=
  match w with
  | O => Some (0, bs)
  | S k => match bs with
           | [] => None
           | b :: tl => if b <? 256 then
                          match le_dec k tl with Some (hi, r) => Some (b + 256 * hi, r) | None => None end
                        else None
           end
  end.
Definition c_le (w : nat) : codec N := {| wf := fun n => n < 256 ^ N.of_nat w; enc := le_enc w; dec := le_dec w |}.
Definition c_u8 := c_le 1.
Definition c_u16 := c_le 2.
Definition c_u32 := c_le 4.
Definition c_u64 := c_le 8.

Lemma c_le_sound w : sound (c_le w).
Proof.
  induction w as [|k IH]; intros a r Ha; cbn [c_le wf enc dec] in *.
  - cbn in *. assert (a = 0) by lia. subst. reflexivity.
  - cbn [le_enc le_dec app].
    assert (a mod 256 < 256) as Hm by (apply N.mod_lt; lia).
    apply N.ltb_lt in Hm. rewrite Hm.
    assert (a / 256 < 256 ^ N.of_nat k) as Hd.
    { apply N.div_lt_upper_bound; [lia|]. rewrite <- N.pow_succ_r'. rewrite <- Nnat.Nat2N.inj_succ. exact Ha. }
    specialize (IH (a / 256) r Hd). cbn [c_le enc dec] in IH. rewrite IH.
    f_equal. f_equal. pose proof (N.div_mod' a 256). lia.
Qed.
Lemma c_le_complete w : complete (c_le w).
Proof.
  induction w as [|k IH]; intros bs a r H; cbn [c_le wf enc dec] in *.
  - cbn in H. inversion H; subst. cbn. split; [reflexivity|lia].
  - cbn [le_dec] in H. destruct bs as [|b tl]; [discriminate|].
    destruct (b <? 256) eqn:Eb; [|discriminate]. apply N.ltb_lt in Eb.
    destruct (le_dec k tl) as [[hi r']|] eqn:E; [|discriminate]. inversion H; subst; clear H.
    destruct (IH _ _ _ E) as [-> Hhi]. cbn [c_le wf enc] in Hhi.
    cbn [le_enc].
    replace ((b + 256 * hi) mod 256) with b by lia.
    replace ((b + 256 * hi) / 256) with hi by lia.
    split; [reflexivity|].
    rewrite Nnat.Nat2N.inj_succ, N.pow_succ_r'. lia.
Qed.
Lemma c_le_lawful w : lawful (c_le w).
Proof. split; [apply c_le_sound|apply c_le_complete]. Qed.
Lemma c_le_nonempty w : nonempty (c_le (S w)).
Proof. intros a _. cbn. discriminate. Qed.
Lemma le_enc_length w n : length (le_enc w n) = w.
Proof. revert n; induction w as [|k IH]; intros n; cbn [le_enc length]; [reflexivity|]. rewrite IH. reflexivity. Qed.

(* ---------------------------------------------------------------- bool: exactly 0 or 1 *)
Definition c_bool : codec bool := {|
  wf := fun _ => True;
  enc := fun b : bool => [if b then 1 else 0];
  dec := fun bs => match bs with
                   | 0 :: r => Some (false, r)
                   | 1 :: r => Some (true, r)
                   | _ => None end |}.
Lemma c_bool_lawful : lawful c_bool.
Proof. split.
  - intros [|] r _; reflexivity.
  - intros bs b r H. cbn in H. destruct bs as [|t tl]; [discriminate|].
    destruct t as [|p]; [inversion H; subst; cbn; auto|].
    destruct p; try discriminate. inversion H; subst; cbn; auto.
Qed.
Lemma c_bool_nonempty : nonempty c_bool.
Proof. intros a _. cbn. discriminate. Qed.

(* ---------------------------------------------------------------- fixed-size byte arrays [u8; n] (keys, hashes, padding) *)
Fixpoint take_bytes (n : nat) (bs : bytes) : option (bytes * bytes) :=
  match n with
  | O => Some ([], bs)
  | S k => match bs with
           | [] => None
           | b :: tl => if b <? 256 then
                          match take_bytes k tl with Some (l, r) => Some (b :: l, r) | None => None end
                        else None
           end
  end.
Definition c_arr (n : nat) : codec bytes := {|
  wf := fun l => length l = n /\ is_bytes l;
  enc := fun l => l;
  dec := take_bytes n |}.
Lemma take_bytes_sound n : forall l r, length l = n -> is_bytes l -> take_bytes n (l ++ r) = Some (l, r).
Proof.
  induction n as [|k IH]; intros l r Hl Hb.
  - destruct l; [reflexivity|discriminate].
  - destruct l as [|b tl]; [discriminate|]. inversion Hb as [|? ? Hb1 Hb2]; subst.
    cbn [take_bytes app]. apply N.ltb_lt in Hb1. rewrite Hb1. rewrite IH; auto.
Qed.
Lemma take_bytes_complete n : forall bs l r, take_bytes n bs = Some (l, r) -> bs = l ++ r /\ length l = n /\ is_bytes l.
Proof.
  induction n as [|k IH]; intros bs l r H; cbn [take_bytes] in H.
  - inversion H; subst. repeat split. constructor.
  - destruct bs as [|b tl]; [discriminate|]. destruct (b <? 256) eqn:Eb; [|discriminate].
    destruct (take_bytes k tl) as [[l' r']|] eqn:E; [|discriminate]. inversion H; subst; clear H.
    apply IH in E as (-> & Hl & Hb). apply N.ltb_lt in Eb. repeat split; cbn; auto. constructor; auto.
Qed.
Lemma c_arr_lawful n : lawful (c_arr n).
Proof. split.
  - intros l r [Hl Hb]. apply take_bytes_sound; auto.
  - intros bs l r H. apply take_bytes_complete in H as (-> & Hl & Hb). cbn. auto.
Qed.
Lemma c_arr_nonempty n : nonempty (c_arr (S n)).
Proof. intros a [Hl _]. cbn. destruct a; [discriminate|discriminate]. Qed.

(* ---------------------------------------------------------------- sequencing *)
Definition c_pair {A B} (ca : codec A) (cb : codec B) : codec (A * B) := {|
  wf := fun '(a, b) => wf ca a /\ wf cb b;
  enc := fun '(a, b) => enc ca a ++ enc cb b;
  dec := fun bs => match dec ca bs with
                   | Some (a, r) => match dec cb r with Some (b, r') => Some ((a, b), r') | None => None end
                   | None => None end |}.
Lemma c_pair_lawful {A B} (ca : codec A) (cb : codec B) : lawful ca -> lawful cb -> lawful (c_pair ca cb).
Proof.
  intros [Sa Ca] [Sb Cb]. split.
  - intros [a b] r [Ha Hb]. cbn. rewrite <- app_assoc. rewrite Sa by auto. rewrite Sb by auto. reflexivity.
  - intros bs [a b] r H. cbn in H.
    destruct (dec ca bs) as [[a' r1]|] eqn:E1; [|discriminate].
    destruct (dec cb r1) as [[b' r2]|] eqn:E2; [|discriminate]. inversion H; subst.
    apply Ca in E1 as [-> Ha]. apply Cb in E2 as [-> Hb]. cbn. rewrite app_assoc. auto.
Qed.
Lemma c_pair_nonempty {A B} (ca : codec A) (cb : codec B) : nonempty ca -> nonempty (c_pair ca cb).
Proof. intros Ha [a b] [Hwa _]. cbn. specialize (Ha a Hwa). destruct (enc ca a); [congruence|discriminate]. Qed.

(* ---------------------------------------------------------------- map through an isomorphism onto a (sub)type: records, enum payloads *)
Definition c_map {A B} (f : A -> B) (g : B -> A) (c : codec A) : codec B := {|
  wf := fun b => wf c (g b) /\ f (g b) = b;
  enc := fun b => enc c (g b);
  dec := fun bs => match dec c bs with Some (a, r) => Some (f a, r) | None => None end |}.
Lemma c_map_lawful {A B} (f : A -> B) (g : B -> A) c : (forall a, g (f a) = a) -> lawful c -> lawful (c_map f g c).
Proof.
  intros Hgf [S C]. split.
  - intros b r [Hw Hfg]. cbn. rewrite S by auto. rewrite Hfg. reflexivity.
  - intros bs b r H. cbn in H. destruct (dec c bs) as [[a r']|] eqn:E; [|discriminate]. inversion H; subst.
    apply C in E as [-> Ha]. cbn. rewrite Hgf. auto.
Qed.
Lemma c_map_nonempty {A B} (f : A -> B) (g : B -> A) c : nonempty c -> nonempty (c_map f g c).
Proof. intros Hn b [Hw _]. cbn. apply Hn; auto. Qed.

(* ---------------------------------------------------------------- Option: tag 0 / 1 *)
Definition c_option {A} (c : codec A) : codec (option A) := {|
  wf := fun o => match o with Some a => wf c a | None => True end;
  enc := fun o => match o with Some a => 1 :: enc c a | None => [0] end;
  dec := fun bs => match bs with
                   | 0 :: r => Some (None, r)
                   | 1 :: r => match dec c r with Some (a, r') => Some (Some a, r') | None => None end
                   | _ => None end |}.
Lemma c_option_lawful {A} (c : codec A) : lawful c -> lawful (c_option c).
Proof.
  intros [S C]. split.
  - intros [a|] r Ha; cbn; [rewrite S by auto|]; reflexivity.
  - intros bs o r H. cbn in H. destruct bs as [|t tl]; [discriminate|].
    destruct t as [|p]; [inversion H; subst; cbn; auto|].
    destruct p; try discriminate.
    destruct (dec c tl) as [[a r']|] eqn:E; [|discriminate]. inversion H; subst.
    apply C in E as [-> Ha]. cbn. auto.
Qed.

(* ---------------------------------------------------------------- Vec: u32 length prefix, then the elements.
   The count is compared with the number of remaining bytes before it is turned into a nat (a corrupted length of
   4e9 must not be expanded); for elements that occupy at least one byte this refuses nothing that could parse. *)
Fixpoint enc_list {A} (c : codec A) (l : list A) : bytes := match l with [] => [] | a :: tl => enc c a ++ enc_list c tl end.
Fixpoint dec_list {A} (c : codec A) (n : nat) (bs : bytes) : option (list A * bytes) :=
  match n with
  | O => Some ([], bs)
  | S k => match dec c bs with
           | Some (a, r) => match dec_list c k r with Some (l, r') => Some (a :: l, r') | None => None end
           | None => None end
  end.
Definition c_vec {A} (c : codec A) : codec (list A) := {|
  wf := fun l => N.of_nat (length l) < 256 ^ 4 /\ Forall (wf c) l;
  enc := fun l => le_enc 4 (N.of_nat (length l)) ++ enc_list c l;
  dec := fun bs => match le_dec 4 bs with
                   | Some (n, r) => if n <=? N.of_nat (length r) then dec_list c (N.to_nat n) r else None
                   | None => None end |}.
Lemma dec_list_sound {A} (c : codec A) : sound c -> forall l r, Forall (wf c) l -> dec_list c (length l) (enc_list c l ++ r) = Some (l, r).
Proof. intros S. induction l as [|a tl IH]; intros r Hf; cbn; [reflexivity|].
  inversion Hf; subst. rewrite <- app_assoc, S by auto. rewrite IH by auto. reflexivity. Qed.
Lemma dec_list_complete {A} (c : codec A) : complete c -> forall n bs l r, dec_list c n bs = Some (l, r) ->
  bs = enc_list c l ++ r /\ Forall (wf c) l /\ length l = n.
Proof. intros C. induction n as [|k IH]; intros bs l r H; cbn in H.
  - inversion H; subst. cbn. auto.
  - destruct (dec c bs) as [[a r1]|] eqn:E1; [|discriminate].
    destruct (dec_list c k r1) as [[l' r2]|] eqn:E2; [|discriminate]. inversion H; subst.
    apply C in E1 as [-> Ha]. apply IH in E2 as (-> & Hf & Hl). cbn. rewrite app_assoc. auto. Qed.
Lemma enc_list_length {A} (c : codec A) : nonempty c -> forall l, Forall (wf c) l -> (length l <= length (enc_list c l))%nat.
Proof. intros Hn. induction l as [|a tl IH]; intros Hf; cbn [enc_list length]; [lia|].
  inversion Hf as [|? ? Ha Htl]; subst. specialize (IH Htl). specialize (Hn a Ha). rewrite app_length.
  destruct (enc c a); [congruence|]. cbn [length]. lia. Qed.
Lemma c_vec_lawful {A} (c : codec A) : nonempty c -> lawful c -> lawful (c_vec c).
Proof.
  intros Hn [S C]. split.
  - intros l r [Hlen Hf]. cbn [c_vec enc dec]. rewrite <- app_assoc.
    pose proof (c_le_sound 4 (N.of_nat (length l)) (enc_list c l ++ r)) as H4. cbn [c_le wf enc dec] in H4.
    rewrite H4 by exact Hlen.
    pose proof (enc_list_length c Hn l Hf) as Hle.
    assert (N.of_nat (length l) <=? N.of_nat (length (enc_list c l ++ r)) = true) as ->.
    { apply N.leb_le. rewrite app_length. lia. }
    rewrite Nnat.Nat2N.id. apply dec_list_sound; auto.
  - intros bs l r H. cbn [c_vec enc dec wf] in *.
    destruct (le_dec 4 bs) as [[n r1]|] eqn:E; [|discriminate].
    pose proof (c_le_complete 4 _ _ _ E) as [-> Hn4]. cbn [c_le wf enc] in Hn4.
    destruct (n <=? N.of_nat (length r1)); [|discriminate].
    apply (dec_list_complete c C) in H as (-> & Hf & Hl).
    rewrite Hl, Nnat.N2Nat.id. rewrite app_assoc. auto.
Qed.
Lemma c_vec_nonempty {A} (c : codec A) : nonempty (c_vec c).
Proof. intros a _. cbn. discriminate. Qed.

(* ---------------------------------------------------------------- tagged unions (enum u8 tags, 8-byte instruction selectors).
   The decoder reads a fixed number of tag bytes and takes the FIRST alternative of the table with that tag, as a
   Rust `match` on constants does.  The encoder and the well-formedness predicate are given separately (the
   hand-written serialisers are separate code); `union_ok` is what makes the three agree. *)
Fixpoint bytes_eqb (a b : bytes) : bool :=
  match a, b with
  | [], [] => true
  | x :: a', y :: b' => N.eqb x y && bytes_eqb a' b'
  | _, _ => false
  end.
Lemma bytes_eqb_eq a b : bytes_eqb a b = true <-> a = b.
Proof. revert b; induction a as [|x a IH]; intros [|y b]; cbn [bytes_eqb]; split; intros H; try discriminate; auto.
  - apply andb_prop in H as [H1 H2]. apply N.eqb_eq in H1. apply IH in H2. congruence.
  - inversion H; subst. rewrite N.eqb_refl. cbn. apply IH. reflexivity. Qed.
Lemma bytes_eqb_refl a : bytes_eqb a a = true.
Proof. apply bytes_eqb_eq. reflexivity. Qed.

Fixpoint lookup {C} (t : bytes) (alts : list (bytes * C)) : option C :=
  match alts with
  | [] => None
  | (t', c) :: tl => if bytes_eqb t t' then Some c else lookup t tl
  end.
Definition dec_union {T} (n : nat) (alts : list (bytes * codec T)) (bs : bytes) : option (T * bytes) :=
  match take_bytes n bs with
  | Some (t, r) => match lookup t alts with Some c => dec c r | None => None end
  | None => None
  end.

Definition c_union {T} (n : nat) (alts : list (bytes * codec T)) (wfT : T -> Prop) (encT : T -> bytes) : codec T :=
  {| wf := wfT; enc := encT; dec := dec_union n alts |}.
(* a payload-free alternative that stands for the constant x *)
Definition c_const {T} (x : T) : codec T := {|
  wf := fun y => x = y;
  enc := fun _ => [];
  dec := fun bs => Some (x, bs) |}.

Lemma lookup_in {C} t (alts : list (bytes * C)) c : lookup t alts = Some c -> In (t, c) alts.
Proof. induction alts as [|[t' c'] tl IH]; cbn [lookup]; [discriminate|].
  destruct (bytes_eqb t t') eqn:E; intros H.
  - apply bytes_eqb_eq in E. inversion H; subst. left; reflexivity.
  - right; auto. Qed.
Lemma lookup_nodup {C} t (alts : list (bytes * C)) c : NoDup (map fst alts) -> In (t, c) alts -> lookup t alts = Some c.
Proof. induction alts as [|[t' c'] tl IH]; cbn [lookup map fst]; intros Hnd Hin; [destruct Hin|].
  inversion Hnd as [|? ? Hni Hnd']; subst. destruct Hin as [Heq|Hin].
  - inversion Heq; subst. rewrite bytes_eqb_refl. reflexivity.
  - destruct (bytes_eqb t t') eqn:E; [|auto].
    apply bytes_eqb_eq in E; subst. exfalso. apply Hni. apply (in_map fst) in Hin. exact Hin. Qed.
Lemma lookup_none {C} t (alts : list (bytes * C)) : ~ In t (map fst alts) -> lookup t alts = None.
Proof. induction alts as [|[t' c'] tl IH]; cbn [lookup map fst In]; intros H; [reflexivity|].
  destruct (bytes_eqb t t') eqn:E; [apply bytes_eqb_eq in E; subst; exfalso; auto|auto]. Qed.

Definition union_ok {T} (n : nat) (alts : list (bytes * codec T)) (wfT : T -> Prop) (encT : T -> bytes) : Prop :=
  Forall (fun tc => length (fst tc) = n /\ is_bytes (fst tc) /\ lawful (snd tc)) alts /\
  NoDup (map fst alts) /\
  (forall x, wfT x -> exists t c, In (t, c) alts /\ wf c x /\ encT x = t ++ enc c x) /\
  (forall t c x, In (t, c) alts -> wf c x -> wfT x /\ encT x = t ++ enc c x).

Lemma union_lawful {T} n alts (wfT : T -> Prop) encT :
  union_ok n alts wfT encT -> lawful {| wf := wfT; enc := encT; dec := dec_union n alts |}.
Proof.
  intros (Hall & Hnd & Hfwd & Hbwd). rewrite Forall_forall in Hall. split.
  - intros x r Hx. cbn [wf enc dec] in *. destruct (Hfwd x Hx) as (t & c & Hin & Hwc & ->).
    destruct (Hall _ Hin) as (Hlen & Hbytes & [Sc _]). cbn [fst snd] in *.
    unfold dec_union. rewrite <- app_assoc. rewrite take_bytes_sound by auto.
    rewrite (lookup_nodup t alts c Hnd Hin). apply Sc; auto.
  - intros bs x r H. cbn [wf enc dec] in *. unfold dec_union in H.
    destruct (take_bytes n bs) as [[t r0]|] eqn:Et; [|discriminate].
    destruct (lookup t alts) as [c|] eqn:El; [|discriminate].
    apply take_bytes_complete in Et as (-> & _ & _). apply lookup_in in El.
    destruct (Hall _ El) as (_ & _ & [_ Cc]). cbn [snd] in Cc.
    apply Cc in H as [-> Hwc]. destruct (Hbwd t c x El Hwc) as [Hx ->]. rewrite app_assoc. auto.
Qed.

Lemma c_union_lawful {T} n alts (wfT : T -> Prop) encT : union_ok n alts wfT encT -> lawful (c_union n alts wfT encT).
Proof. apply union_lawful. Qed.
Lemma c_const_lawful {T} (x : T) : lawful (c_const x).
Proof. split; [intros a r <-; reflexivity | intros bs a r H; cbn in H; inversion H; subst; cbn; auto]. Qed.
Lemma c_union_nonempty {T} n alts (wfT : T -> Prop) encT : union_ok (S n) alts wfT encT -> nonempty (c_union (S n) alts wfT encT).
Proof.
  intros (Hall & _ & Hfwd & _) x Hx. cbn [c_union wf enc] in *. destruct (Hfwd x Hx) as (t & c & Hin & _ & ->).
  rewrite Forall_forall in Hall. destruct (Hall _ Hin) as (Hlen & _). cbn [fst] in Hlen. destruct t; [discriminate|discriminate].
Qed.

(* a byte string whose first n bytes are no tag of the table is refused *)
Lemma dec_union_unknown {T} n (alts : list (bytes * codec T)) t r :
  length t = n -> ~ In t (map fst alts) -> dec_union n alts (t ++ r) = None.
Proof.
  intros Hl Hni. unfold dec_union. destruct (take_bytes n (t ++ r)) as [[t' r']|] eqn:E; [|reflexivity].
  apply take_bytes_complete in E as (E & Hl' & _).
  assert (t' = t) as ->.
  { revert t' Hl Hl' E. clear. revert n. induction t as [|a t IH]; intros n [|b t'] Hl Hl' E; cbn in *; subst; try discriminate; auto.
    inversion E; subst. f_equal. inversion Hl'. eapply IH; eauto. }
  rewrite lookup_none by auto. reflexivity.
Qed.
(* shorter than the tag: refused *)
Lemma dec_union_short {T} n (alts : list (bytes * codec T)) bs : (length bs < n)%nat -> dec_union n alts bs = None.
Proof.
  intros Hl. unfold dec_union. destruct (take_bytes n bs) as [[t r]|] eqn:E; [|reflexivity].
  apply take_bytes_complete in E as (-> & Hl' & _). rewrite app_length in Hl. lia.
Qed.

(* boolean NoDup on tags, reflected (finite facts about the generated selector constants are decided by vm_compute) *)
Fixpoint memb (t : bytes) (l : list bytes) : bool := match l with [] => false | x :: tl => bytes_eqb t x || memb t tl end.
Fixpoint nodupb (l : list bytes) : bool := match l with [] => true | x :: tl => negb (memb x tl) && nodupb tl end.
Lemma memb_in t l : memb t l = true <-> In t l.
Proof. induction l as [|x tl IH]; cbn [memb In]; [split; [discriminate|tauto]|].
  rewrite orb_true_iff, IH, bytes_eqb_eq. split; intros [H|H]; auto. Qed.
Lemma nodupb_nodup l : nodupb l = true -> NoDup l.
Proof. induction l as [|x tl IH]; cbn [nodupb]; intros H; [constructor|].
  apply andb_prop in H as [H1 H2]. constructor; [|auto].
  intros Hin. apply memb_in in Hin. rewrite Hin in H1. discriminate. Qed.
Lemma memb_false_not_in t l : memb t l = false -> ~ In t l.
Proof. intros H Hin. apply memb_in in Hin. congruence. Qed.

(* ---------------------------------------------------------------- strict parsing = Borsh try_from_slice *)
Definition parse_all {A} (c : codec A) (bs : bytes) : option A :=
  match dec c bs with Some (a, []) => Some a | _ => None end.

Theorem roundtrip {A} (c : codec A) : lawful c -> forall a, wf c a -> parse_all c (enc c a) = Some a.
Proof. intros [S _] a Ha. unfold parse_all. rewrite <- (app_nil_r (enc c a)), S by auto. reflexivity. Qed.
Theorem parse_all_canonical {A} (c : codec A) : lawful c -> forall bs a, parse_all c bs = Some a -> bs = enc c a /\ wf c a.
Proof. intros [_ C] bs a H. unfold parse_all in H. destruct (dec c bs) as [[b r]|] eqn:D; [|discriminate].
  destruct r; [|discriminate]. inversion H; subst. apply C in D as [-> Hw]. rewrite app_nil_r. auto. Qed.
Theorem enc_inj {A} (c : codec A) : lawful c -> forall a b, wf c a -> wf c b -> enc c a = enc c b -> a = b.
Proof. intros L a b Ha Hb E. pose proof (roundtrip c L a Ha) as Ra. pose proof (roundtrip c L b Hb) as Rb. rewrite E in Ra. congruence. Qed.
Theorem reject_trailing {A} (c : codec A) : lawful c -> forall a t, wf c a -> t <> [] -> parse_all c (enc c a ++ t) = None.
Proof. intros [S _] a t Ha Ht. unfold parse_all. rewrite S by auto. destruct t; congruence. Qed.
(* lawful codecs are prefix codes: no proper prefix of an encoding parses as a complete value of the same type *)
Theorem reject_truncated {A} (c : codec A) : lawful c -> forall a p s, wf c a -> enc c a = p ++ s -> s <> [] -> parse_all c p = None.
Proof.
  intros [S C] a p s Ha E Hs. unfold parse_all.
  destruct (dec c p) as [[b r]|] eqn:D; [|reflexivity].
  destruct r; [|reflexivity].
  apply C in D as [-> Hb]. rewrite app_nil_r in E.
  pose proof (S b s Hb) as D1. rewrite <- E in D1.
  pose proof (S a [] Ha) as D2. rewrite app_nil_r in D2. rewrite D2 in D1. inversion D1; subst. congruence.
Qed.
