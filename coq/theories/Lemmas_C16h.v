(* C16 at history level: contributor-rewards accounts over ARBITRARY instructions, transactions and honest histories.
   B1  every stored recipient table is empty or valid (`all_tables_ok`), in every world reachable without OForge;
   B2  a contributor record changes only through ConfigureContributor (recipients / block flag; signed by the record's
       current rewards manager), SetRewardsManager (signed by the contributor manager of the config account the
       instruction names; refused while the block flag is set) and InitializeContributor (creation, empty table);
       stated for rd_process (`rd_process_cstep`), for any instruction of any program incl. rogue CPI wrappers
       (`exec_data_cstep`), and for transactions with the message signers (`tx_*`).  Index at the end. *)
From DZ Require Import Base Keys Merkle BurnRate Shares Recipients Swap_Ring State World SwapDeq RD Passport Swap Exec
  Lemmas_Shares Lemmas_RdGuards Lemmas_Canon Lemmas_Inv Lemmas_Inv2 Lemmas_Inv3.

(* ------------------------------------------------------------------ 1. validity of a stored table (structured keys) *)
Definition kvalid (l : list (key * N)) : Prop :=
  (1 <= length l <= 8)%nat /\ Forall (fun e => fst e <> default_key /\ snd e <> 0) l /\ sumN (map snd l) = US16_MAX.
Definition table_ok (l : list (key * N)) : Prop := l = [] \/ kvalid l.

Lemma recipients_sum_ok_spec : forall l total t, total <= US16_MAX ->
  (recipients_sum_ok l total = Some t <->
   Forall (fun e => fst e <> default_key /\ snd e <> 0) l /\ t = total + sumN (map snd l) /\ t <= US16_MAX).
Proof.
  induction l as [|[k s] tl IH]; intros total t Ht; cbn [recipients_sum_ok map snd sumN].
  - split.
    + intros H. injection H as <-. split; [constructor|]. split; lia.
    + intros (_ & -> & _). f_equal. lia.
  - unfold is_default. destruct (key_eqb_spec k default_key) as [->|Hk].
    { split; [discriminate|]. intros (F & _). inversion F as [|? ? [X _]]; subst. cbn in X. congruence. }
    destruct (N.leb_spec s US16_MAX) as [Hs|Hs]; cbn [negb].
    2:{ split; [discriminate|]. intros (_ & -> & Hle). pose proof (N.le_0_l (sumN (map snd tl))). lia. }
    destruct (N.eqb_spec s 0) as [->|Hs0].
    { split; [discriminate|]. intros (F & _). inversion F as [|? ? [_ X]]; subst. cbn in X. congruence. }
    unfold us16_checked_add. rewrite us_checked_add_spec by (unfold US16_MAX, two16 in *; lia).
    destruct (N.leb_spec (total + s) US16_MAX) as [Hle|Hgt].
    + rewrite (IH (total + s) t Hle). split.
      * intros (F & -> & Hl). split; [constructor; [cbn; auto|exact F]|]. split; lia.
      * intros (F & -> & Hl). inversion F; subst. split; [assumption|]. split; lia.
    + split; [discriminate|]. intros (_ & -> & Hl). pose proof (N.le_0_l (sumN (map snd tl))). lia.
Qed.

(* the model's RecipientShares::new on structured keys accepts exactly the valid lists (1..8 entries, no default key,
   no zero share, shares totalling 100%) *)
Theorem recipients_new_k_spec l : recipients_new_k l = true <-> kvalid l.
Proof.
  unfold recipients_new_k, kvalid. rewrite andb_true_iff, Nat.leb_le. split.
  - intros [Hlen H]. destruct (recipients_sum_ok l 0) as [t|] eqn:E; [|discriminate]. apply N.eqb_eq in H. subst t.
    apply recipients_sum_ok_spec in E; [|unfold US16_MAX; lia]. destruct E as (F & E & _). split; [|split; [exact F|lia]].
    split; [|exact Hlen]. destruct l; [cbn in E; unfold US16_MAX in E; lia|cbn; lia].
  - intros ((H1 & H8) & F & Hs). split; [exact H8|].
    assert (E : recipients_sum_ok l 0 = Some US16_MAX).
    { apply recipients_sum_ok_spec; [unfold US16_MAX; lia|]. split; [exact F|]. split; lia. }
    rewrite E. apply N.eqb_refl.
Qed.

(* the same predicate as Props_C16 / Lemmas_Shares (`recipients_valid` on 256-bit keys) under any key numbering that
   sends exactly the all-zero key to 0 *)
Theorem kvalid_recipients_valid (enc : key -> N) l : (forall k, enc k = 0 <-> k = default_key) ->
  (kvalid l <-> recipients_valid (map (fun e => (enc (fst e), snd e)) l) = true).
Proof.
  intros Henc. unfold kvalid, recipients_valid, MAX_RECIPIENTS.
  rewrite !andb_true_iff, !Nat.leb_le, N.eqb_eq, map_length, map_map. cbn [snd].
  rewrite !forallb_forall, Forall_forall. split.
  - intros ((H1 & H8) & F & Hs). repeat split; try assumption.
    + intros e He. apply in_map_iff in He. destruct He as (x & <- & Hx). cbn. apply negb_true_iff, N.eqb_neq.
      rewrite Henc. apply (F x Hx).
    + intros e He. apply in_map_iff in He. destruct He as (x & <- & Hx). cbn. apply negb_true_iff, N.eqb_neq. apply (F x Hx).
  - intros ((((H1 & H8) & Fk) & Fs) & Hs). repeat split; try assumption.
    + intros Hk. specialize (Fk (enc (fst x), snd x) (in_map _ _ _ H)). cbn in Fk. apply negb_true_iff, N.eqb_neq in Fk.
      apply Fk, Henc, Hk.
    + intros Hz. specialize (Fs (enc (fst x), snd x) (in_map _ _ _ H)). cbn in Fs. apply negb_true_iff, N.eqb_neq in Fs. auto.
Qed.
Lemma kvalid_nonempty l : kvalid l -> l <> [].
Proof. intros ((H & _) & _) ->. cbn in H. lia. Qed.

(* ------------------------------------------------------------------ 2. contributor records of a world; footprint of the primitives *)
Definition contrib_of (a : acct) : option contrib :=
  if key_eqb (owner a) KRd then match data a with DContrib c => Some c | _ => None end else None.
Definition contrib_at (W : world) (k : key) : option contrib := contrib_of (get W k).
Definition same_contribs (W W' : world) : Prop := forall k, contrib_at W' k = contrib_at W k.

Lemma contrib_at_rd_acct W k c : contrib_at W k = Some c <-> rd_acct W k (DContrib c).
Proof.
  unfold contrib_at, contrib_of, rd_acct. destruct (key_eqb_spec (owner (get W k)) KRd) as [E|E].
  - split.
    + destruct (data (get W k)); intros H; try discriminate H. injection H as <-. auto.
    + intros [_ H]. rewrite H. reflexivity.
  - split; [discriminate|]. intros [H _]. contradiction.
Qed.

Lemma csame_refl W : same_contribs W W.
Proof. intros k; reflexivity. Qed.
Lemma csame_trans W1 W2 W3 : same_contribs W1 W2 -> same_contribs W2 W3 -> same_contribs W1 W3.
Proof. intros H1 H2 k. rewrite H2. apply H1. Qed.
Lemma contrib_at_put W k a k' : contrib_at (put W k a) k' = if key_eqb k k' then contrib_of a else contrib_at W k'.
Proof. unfold contrib_at. rewrite Lemmas_Inv.get_put. destruct (key_eqb k k'); reflexivity. Qed.
Lemma cput_same W k a : contrib_of a = contrib_at W k -> same_contribs W (put W k a).
Proof. intros H k'. rewrite contrib_at_put. destruct (key_eqb_spec k k') as [->|Hne]; [exact H|reflexivity]. Qed.

Lemma contrib_of_owner a : owner a <> KRd -> contrib_of a = None.
Proof. intros H. unfold contrib_of. rewrite (key_eqb_neq _ _ H). reflexivity. Qed.
Lemma contrib_at_owner W k o : owner (get W k) = o -> o <> KRd -> contrib_at W k = None.
Proof. intros H Ho. apply contrib_of_owner. congruence. Qed.
Lemma contrib_at_data_none W k : (forall c, data (get W k) <> DContrib c) -> contrib_at W k = None.
Proof. intros H. unfold contrib_at, contrib_of. destruct (key_eqb (owner (get W k)) KRd); [|reflexivity].
  destruct (data (get W k)) eqn:E; try reflexivity. exfalso. eapply H. reflexivity. Qed.

Lemma credit_csame cx W k amt W' : credit cx W k amt = Ok W' -> same_contribs W W'.
Proof. unfold credit. destruct (amt =? 0); intros H; inv; [apply csame_refl|]. apply cput_same. reflexivity. Qed.
Lemma debit_csame cx W k amt W' : debit cx W k amt = Ok W' -> same_contribs W W'.
Proof. unfold debit. destruct (amt =? 0); intros H; inv; [apply csame_refl|]. apply cput_same. reflexivity. Qed.
Lemma set_lamports_to_zero_csame cx W k W' : set_lamports_to_zero cx W k = Ok W' -> same_contribs W W'.
Proof. apply debit_csame. Qed.
Lemma resize_csame cx W k n W' : resize cx W k n = Ok W' -> same_contribs W W'.
Proof. unfold resize. intros H; inv. apply cput_same. reflexivity. Qed.
Lemma sys_transfer_core_csame W ms f t amt W' : sys_transfer_core W ms f t amt = Ok W' -> same_contribs W W'.
Proof. unfold sys_transfer_core. intros H; inv. eapply csame_trans; apply cput_same; reflexivity. Qed.
Lemma sys_allocate_core_csame W ms k sp W' : sys_allocate_core W ms k sp = Ok W' -> same_contribs W W' /\ data (get W' k) = DEmpty.
Proof.
  unfold sys_allocate_core. intros H; inv; bools; keqs.
  match goal with H : owner _ = KSystem |- _ => rename H into Ho end.
  split.
  - apply cput_same. rewrite (contrib_at_owner _ _ _ Ho) by discriminate. apply contrib_of_owner. cbn. rewrite Ho. discriminate.
  - rewrite Lemmas_Inv.get_put, key_eqb_refl. reflexivity.
Qed.
Lemma sys_assign_core_cempty W ms k o W' : data (get W k) = DEmpty -> sys_assign_core W ms k o = Ok W' -> same_contribs W W'.
Proof.
  intros Hd. unfold sys_assign_core. destruct (key_eqb (owner (get W k)) o); intros H; inv; [apply csame_refl|].
  apply cput_same. rewrite (contrib_at_data_none W k) by (intros; rewrite Hd; discriminate).
  unfold contrib_of. cbn. rewrite Hd. destruct (key_eqb o KRd); reflexivity.
Qed.
Lemma sys_create_account_core_csame W ms f t lam sp o W' :
  sys_create_account_core W ms f t lam sp o = Ok W' -> same_contribs W W'.
Proof.
  unfold sys_create_account_core. intros H; inv; bools; keqs.
  match goal with H : owner _ = KSystem |- _ => rename H into Ho end.
  eapply csame_trans; [|eapply sys_transfer_core_csame; eassumption].
  apply cput_same. rewrite (contrib_at_owner _ _ _ Ho) by discriminate.
  unfold contrib_of. cbn. destruct (key_eqb o KRd); reflexivity.
Qed.
Lemma sys_transfer_csame cx W f t amt pdas W' : sys_transfer cx W f t amt pdas = Ok W' -> same_contribs W W'.
Proof. unfold sys_transfer. intros H; inv. eapply sys_transfer_core_csame; eassumption. Qed.
Lemma sys_create_account_csame cx W f t lam sp o pdas W' : sys_create_account cx W f t lam sp o pdas = Ok W' -> same_contribs W W'.
Proof. unfold sys_create_account. intros H; inv. eapply sys_create_account_core_csame; eassumption. Qed.
Lemma create_account_csame cx W payer new_ len o add W' : create_account cx W payer new_ len o add = Ok W' -> same_contribs W W'.
Proof.
  unfold create_account. destruct (lamports (get W new_) =? 0); intros H.
  - eapply sys_create_account_csame; eassumption.
  - inv. unfold sys_allocate in Hm. unfold sys_assign in Hm0. inv.
    apply sys_allocate_core_csame in Hm. destruct Hm as [S1 Hd].
    pose proof (sys_assign_core_cempty _ _ _ _ _ Hd Hm0) as S2.
    destruct (_ =? 0) in H; inv.
    + eapply csame_trans; eassumption.
    + eapply csame_trans; [eassumption|]. eapply csame_trans; [eassumption|]. eapply sys_transfer_csame; eassumption.
Qed.
Lemma as_token_cnone W k t : as_token W k = Ok t -> contrib_at W k = None.
Proof.
  unfold as_token. destruct (data (get W k)) eqn:E; try discriminate. intros _.
  apply contrib_at_data_none. intros; rewrite E; discriminate.
Qed.
Lemma as_mint_cnone W k t : as_mint W k = Ok t -> contrib_at W k = None.
Proof.
  unfold as_mint. destruct (data (get W k)) eqn:E; try discriminate. intros _.
  apply contrib_at_data_none. intros; rewrite E; discriminate.
Qed.
Lemma put_token_csame W k t : contrib_at W k = None -> same_contribs W (put_token W k t).
Proof. intros H. unfold put_token. apply cput_same. rewrite H. unfold contrib_of. cbn. destruct (key_eqb _ KRd); reflexivity. Qed.
Lemma tok_transfer_core_csame W ms src dst auth amt chk W' :
  tok_transfer_core W ms src dst auth amt chk = Ok W' -> same_contribs W W'.
Proof.
  unfold tok_transfer_core. intros H. inv.
  destruct (key_eqb src dst); [inv; apply csame_refl|].
  destruct (amt =? 0); [inv; apply csame_refl|]. inv.
  eapply csame_trans; apply put_token_csame; eapply as_token_cnone; eassumption.
Qed.
Lemma tok_burn_core_csame W ms acc mint auth amt W' : tok_burn_core W ms acc mint auth amt = Ok W' -> same_contribs W W'.
Proof.
  unfold tok_burn_core. intros H. inv. destruct (amt =? 0); [inv; apply csame_refl|]. inv.
  pose proof (put_token_csame W acc (a <| t_amount := t_amount a - amt |>) (as_token_cnone _ _ _ Hm)) as S1.
  eapply csame_trans; [exact S1|]. apply cput_same.
  rewrite S1. rewrite (as_mint_cnone _ _ _ Hm0).
  unfold contrib_of. cbn. destruct (key_eqb _ KRd); reflexivity.
Qed.
Lemma tok_transfer_csame cx W src dst auth amt pdas W' : tok_transfer cx W src dst auth amt pdas = Ok W' -> same_contribs W W'.
Proof. unfold tok_transfer. intros H; inv. eapply tok_transfer_core_csame; eassumption. Qed.
Lemma tok_transfer_checked_csame cx W src mint dst auth amt dec pdas W' :
  tok_transfer_checked cx W src mint dst auth amt dec pdas = Ok W' -> same_contribs W W'.
Proof. unfold tok_transfer_checked. intros H; inv. eapply tok_transfer_core_csame; eassumption. Qed.
Lemma tok_burn_csame cx W acc mint auth amt pdas W' : tok_burn cx W acc mint auth amt pdas = Ok W' -> same_contribs W W'.
Proof. unfold tok_burn. intros H; inv. eapply tok_burn_core_csame; eassumption. Qed.
Lemma tok_init_account3_csame cx W acc mint o W' : tok_init_account3 cx W acc mint o = Ok W' -> same_contribs W W'.
Proof.
  unfold tok_init_account3. intros H; inv; keqs.
  match goal with H : owner _ = KToken |- _ => rename H into Ho end.
  apply cput_same. rewrite (contrib_at_owner _ _ _ Ho) by discriminate. apply contrib_of_owner. cbn. rewrite Ho. discriminate.
Qed.
Lemma create_token_account_csame cx W payer new_ mint o W' : create_token_account cx W payer new_ mint o = Ok W' -> same_contribs W W'.
Proof.
  unfold create_token_account. intros H; inv.
  eapply csame_trans; [eapply create_account_csame; eassumption|eapply tok_init_account3_csame; eassumption].
Qed.

(* the only writer of account data *)
Definition cc (x : adata) : option contrib := match x with DContrib c => Some c | _ => None end.
Definition wrc (W : world) (k : key) (x : adata) : option contrib :=
  match contrib_at W k with
  | Some _ => cc x
  | None => if key_eqb (owner (get W k)) KRd then cc x else None
  end.
Lemma write_data_cchar cx W k x W' : write_data cx W k x = Ok W' ->
  forall k', contrib_at W' k' = if key_eqb k k' then wrc W k x else contrib_at W k'.
Proof.
  unfold write_data. intros H; inv. intros k'. rewrite contrib_at_put.
  destruct (key_eqb k k'); [|reflexivity]. unfold wrc, contrib_at, contrib_of. cbn.
  destruct (key_eqb (owner (get W k)) KRd); [|reflexivity]. destruct (data (get W k)); reflexivity.
Qed.
Lemma try_initialize_cchar cx W k len x W' : try_initialize cx W k len x = Ok W' ->
  contrib_at W k = None /\ forall k', contrib_at W' k' = if key_eqb k k' then wrc W k x else contrib_at W k'.
Proof.
  unfold try_initialize. intros H; inv. split; [|eapply write_data_cchar; eassumption].
  destruct (data (get W k)) eqn:E; try discriminate. apply contrib_at_data_none. intros; rewrite E; discriminate.
Qed.
Lemma write_noncontrib_csame cx W k x W' : write_data cx W k x = Ok W' -> cc x = None -> contrib_at W k = None -> same_contribs W W'.
Proof.
  intros H Hx Hk k'. rewrite (write_data_cchar _ _ _ _ _ H).
  destruct (key_eqb_spec k k') as [->|]; [|reflexivity]. unfold wrc. rewrite Hk, Hx. destruct (key_eqb _ KRd); reflexivity.
Qed.
Lemma put_dist_cchar cx W k d t W' : put_dist cx W k d t = Ok W' ->
  forall k', contrib_at W' k' = if key_eqb k k' then wrc W k (DDist d t) else contrib_at W k'.
Proof. apply write_data_cchar. Qed.

(* typed access *)
Lemma rd_zc_config_cnone ms w W ck c ms' : rd_zc_config ms w W = Ok (ck, c, ms') -> contrib_at W ck = None.
Proof. unfold rd_zc_config. intros H; invp. destruct (data (get W (mkey m))) eqn:E; try discriminate. invp.
  apply contrib_at_data_none. intros; rewrite E; discriminate. Qed.
Lemma rd_zc_journal_cnone ms w W ck c ms' : rd_zc_journal ms w W = Ok (ck, c, ms') -> contrib_at W ck = None.
Proof. unfold rd_zc_journal. intros H; invp. destruct (data (get W (mkey m))) eqn:E; try discriminate. invp.
  apply contrib_at_data_none. intros; rewrite E; discriminate. Qed.
Lemma rd_zc_deposit_cnone ms w W ck c ms' : rd_zc_deposit ms w W = Ok (ck, c, ms') -> contrib_at W ck = None.
Proof. unfold rd_zc_deposit. intros H; invp. destruct (data (get W (mkey m))) eqn:E; try discriminate. invp.
  apply contrib_at_data_none. intros; rewrite E; discriminate. Qed.
Lemma rd_zc_dist_cnone ms w W ck d t ms' : rd_zc_dist ms w W = Ok (ck, d, t, ms') -> contrib_at W ck = None.
Proof. unfold rd_zc_dist. intros H; invp. destruct (data (get W (mkey m))) eqn:E; try discriminate. invp.
  apply contrib_at_data_none. intros; rewrite E; discriminate. Qed.
Lemma rd_zc_contrib_csome ms w W k c ms' : rd_zc_contrib ms w W = Ok (k, c, ms') -> contrib_at W k = Some c.
Proof. unfold rd_zc_contrib. intros H; invp. destruct (data (get W (mkey m))) eqn:E; try discriminate. invp.
  apply next_account_owner in Hm. unfold contrib_at, contrib_of. rewrite Hm, E. reflexivity. Qed.
Lemma rd_verified_cnone ms w who W ck c ms' : rd_verified ms w who W = Ok (ck, c, ms') -> contrib_at W ck = None.
Proof. unfold rd_verified. intros H; invp. eapply rd_zc_config_cnone; eassumption. Qed.
Lemma pp_zc_config_cnone ms w W ck c ms' : pp_zc_config ms w W = Ok (ck, c, ms') -> contrib_at W ck = None.
Proof. unfold pp_zc_config. intros H; invp. destruct (data (get W (mkey m))) eqn:E; try discriminate. invp.
  apply contrib_at_data_none. intros; rewrite E; discriminate. Qed.
Lemma pp_verified_cnone ms w who W ck c a ms' : pp_verified ms w who W = Ok (ck, c, a, ms') -> contrib_at W ck = None.
Proof. unfold pp_verified. intros H; invp. eapply pp_zc_config_cnone; eassumption. Qed.
Lemma sw_zc_fills_cnone ms W fk r ms' : sw_zc_fills ms W = Ok (fk, r, ms') -> contrib_at W fk = None.
Proof. unfold sw_zc_fills. intros H; invp. destruct (data (get W (mkey m))) eqn:E; try discriminate. invp.
  apply contrib_at_data_none. intros; rewrite E; discriminate. Qed.

(* ------------------------------------------------------------------ 3. the chain tactic (Lemmas_Inv2) for contrib_at *)
Ltac cprim_extra := fail.
Ltac cprim_step :=
  match goal with
  | H : credit _ _ _ _ = Ok _ |- _ => apply credit_csame in H
  | H : debit _ _ _ _ = Ok _ |- _ => apply debit_csame in H
  | H : set_lamports_to_zero _ _ _ = Ok _ |- _ => apply set_lamports_to_zero_csame in H
  | H : resize _ _ _ _ = Ok _ |- _ => apply resize_csame in H
  | H : sys_transfer _ _ _ _ _ _ = Ok _ |- _ => apply sys_transfer_csame in H
  | H : create_account _ _ _ _ _ _ _ = Ok _ |- _ => apply create_account_csame in H
  | H : create_token_account _ _ _ _ _ _ = Ok _ |- _ => apply create_token_account_csame in H
  | H : tok_transfer _ _ _ _ _ _ _ = Ok _ |- _ => apply tok_transfer_csame in H
  | H : tok_transfer_checked _ _ _ _ _ _ _ _ _ = Ok _ |- _ => apply tok_transfer_checked_csame in H
  | H : tok_burn _ _ _ _ _ _ _ = Ok _ |- _ => apply tok_burn_csame in H
  | H : write_data _ _ _ _ = Ok _ |- _ => let H' := fresh H in pose proof (write_data_cchar _ _ _ _ _ H) as H'; clear H
  | H : put_dist _ _ _ _ _ = Ok _ |- _ => let H' := fresh H in pose proof (put_dist_cchar _ _ _ _ _ _ H) as H'; clear H
  | H : try_initialize _ _ _ _ _ = Ok _ |- _ => apply try_initialize_cchar in H
  | H : rd_zc_config _ _ _ = Ok _ |- _ => apply rd_zc_config_cnone in H
  | H : rd_zc_journal _ _ _ = Ok _ |- _ => apply rd_zc_journal_cnone in H
  | H : rd_zc_deposit _ _ _ = Ok _ |- _ => apply rd_zc_deposit_cnone in H
  | H : rd_zc_contrib _ _ _ = Ok _ |- _ => apply rd_zc_contrib_csome in H
  | H : rd_zc_dist _ _ _ = Ok _ |- _ => apply rd_zc_dist_cnone in H
  | H : rd_verified _ _ _ _ = Ok _ |- _ => apply rd_verified_cnone in H
  | H : same_contribs _ _ |- _ => unfold same_contribs in H
  | H : _ /\ _ |- _ => destruct H
  end.
Ltac cprim_facts := repeat first [ cprim_step | cprim_extra ].
Ltac rw_contribs :=
  repeat first
  [ progress (unfold wrc in * )
  | match goal with
    | H : forall k, contrib_at ?W k = _ |- context [contrib_at ?W _] => rewrite !H
    | H : forall k, contrib_at ?W k = _, H2 : context [contrib_at ?W _] |- _ =>
        lazymatch type of H2 with forall _, _ => fail | _ => rewrite !H in H2 end
    end ].
Ltac cuse_facts :=
  repeat match goal with
  | H : contrib_at ?W ?k = _ |- context [contrib_at ?W ?k] => rewrite H
  end.
Ltac cuse_facts_hyps :=
  repeat match goal with
  | H : contrib_at ?W ?k = _, H2 : context [contrib_at ?W ?k] |- _ =>
      lazymatch type of H2 with
      | forall _, _ => fail
      | contrib_at W k = _ => fail
      | _ => rewrite H in H2; cbv beta iota in H2; cbn [cc] in H2
      end
  end.
Ltac cchain_same :=
  keyhyps; cprim_facts;
  let k := fresh "k" in intros k; rw_contribs; cuse_facts; cbv beta iota; keycases; cuse_facts; cuse_facts_hyps; cbv beta iota; cbn [cc];
  try reflexivity; try congruence; try (exfalso; congruence).

(* the 19 processors that never touch a contributor record *)
Lemma rd_set_admin_csame cx W k W' : rd_set_admin cx W k = Ok W' -> same_contribs W W'.
Proof. unfold rd_set_admin. intros H; invp. cchain_same. Qed.
Lemma rd_migrate_csame cx W W' : rd_migrate cx W = Ok W' -> same_contribs W W'.
Proof. unfold rd_migrate. intros H; invp. cchain_same. Qed.
Lemma rd_configure_program_csame cx W s W' : rd_configure_program cx W s = Ok W' -> same_contribs W W'.
Proof. unfold rd_configure_program. intros H; invp. cchain_same. Qed.
Lemma rd_initialize_program_csame cx W W' : rd_initialize_program cx W = Ok W' -> same_contribs W W'.
Proof. unfold rd_initialize_program. intros H; invp. cchain_same. Qed.
Lemma rd_initialize_journal_csame cx W W' : rd_initialize_journal cx W = Ok W' -> same_contribs W W'.
Proof. unfold rd_initialize_journal. intros H; invp. cchain_same. Qed.
Lemma rd_verify_root_csame cx W kind pr W' : rd_verify_root cx W kind pr = Ok W' -> same_contribs W W'.
Proof. unfold rd_verify_root. intros H; invp. destruct kind; invp; apply csame_refl. Qed.
Lemma rd_initialize_deposit_csame cx W node W' : rd_initialize_deposit cx W node = Ok W' -> same_contribs W W'.
Proof. unfold rd_initialize_deposit. intros H; invp. cchain_same. Qed.
Lemma rd_initialize_swap_destination_csame cx W W' : rd_initialize_swap_destination cx W = Ok W' -> same_contribs W W'.
Proof. unfold rd_initialize_swap_destination. intros H; invp. cchain_same. Qed.
Lemma rd_configure_debt_csame cx W n debt root W' : rd_configure_debt cx W n debt root = Ok W' -> same_contribs W W'.
Proof. unfold rd_configure_debt. intros H; invp. cchain_same. Qed.
Lemma rd_configure_rewards_csame cx W n root W' : rd_configure_rewards cx W n root = Ok W' -> same_contribs W W'.
Proof. unfold rd_configure_rewards. intros H; invp. cchain_same. Qed.

Lemma grow_and_fund_cchar cx W dk d tail extra ms more W' : grow_and_fund cx W dk d tail extra ms more = Ok W' ->
  contrib_at W dk = None -> same_contribs W W'.
Proof.
  unfold grow_and_fund. intros H Hn; invp. cprim_facts. intros k'. rw_contribs. rewrite Hn.
  destruct (key_eqb_spec dk k') as [<-|Hne]; [|reflexivity]. rewrite Hn. destruct (key_eqb _ KRd); reflexivity.
Qed.
Lemma distribute_loop_csame cx recips : forall W ms remaining src auth pdas acc W' acc' ms',
  distribute_loop cx W ms recips remaining src auth pdas acc = Ok (W', acc', ms') -> same_contribs W W'.
Proof.
  induction recips as [|[rk share] tl IH]; intros W ms remaining src auth pdas acc W' acc' ms' H; cbn [distribute_loop] in H.
  - invp. apply csame_refl.
  - invp. eapply csame_trans; [eapply tok_transfer_csame; eassumption|eapply IH; eassumption].
Qed.
Lemma sw_dequeue_fills_csame cx W sol W' rep : sw_dequeue_fills cx W sol = Ok (W', rep) -> same_contribs W W'.
Proof.
  unfold sw_dequeue_fills. intros H; invp. destruct (dequeue _ _) as [[r' z]|]; [|discriminate]. invp.
  eapply write_noncontrib_csame; [eassumption|reflexivity|]. eapply sw_zc_fills_cnone; eassumption.
Qed.
Lemma swap_dequeue_cpi_csame cx W swap cfg st fills jk sol pdas W' rep :
  swap_dequeue_cpi cx W swap cfg st fills jk sol pdas = Ok (W', rep) -> same_contribs W W'.
Proof.
  unfold swap_dequeue_cpi. intros H; invp. destruct swap; try discriminate.
  - eapply sw_dequeue_fills_csame; eassumption.
  - destruct (data (get W fills)) as [| | | | | | | | | | | |[r|]|]; invp; apply csame_refl.
Qed.
Ltac cprim_extra ::=
  match goal with
  | H : distribute_loop _ _ _ _ _ _ _ _ _ = Ok _ |- _ => apply distribute_loop_csame in H
  | H : swap_dequeue_cpi _ _ _ _ _ _ _ _ _ = Ok _ |- _ => apply swap_dequeue_cpi_csame in H
  | H : pp_zc_config _ _ _ = Ok _ |- _ => apply pp_zc_config_cnone in H
  | H : pp_verified _ _ _ _ = Ok _ |- _ => apply pp_verified_cnone in H
  | H : sw_zc_fills _ _ = Ok _ |- _ => apply sw_zc_fills_cnone in H
  end.

Lemma rd_finalize_debt_csame cx W W' : rd_finalize_debt cx W = Ok W' -> same_contribs W W'.
Proof.
  unfold rd_finalize_debt. intros H; invp. destruct (_ =? 0) in H.
  - cchain_same.
  - eapply grow_and_fund_cchar; [eassumption|]. eapply rd_zc_dist_cnone; eassumption.
Qed.
Lemma rd_finalize_rewards_csame cx W W' : rd_finalize_rewards cx W = Ok W' -> same_contribs W W'.
Proof.
  unfold rd_finalize_rewards. intros H; invp.
  eapply grow_and_fund_cchar; [eassumption|]. eapply rd_zc_dist_cnone; eassumption.
Qed.
Lemma rd_distribute_rewards_csame cx W us ebr pr W' : rd_distribute_rewards cx W us ebr pr = Ok W' -> same_contribs W W'.
Proof. unfold rd_distribute_rewards. intros H; invp. cchain_same. Qed.
Lemma rd_pay_debt_csame cx W amount pr W' : rd_pay_debt cx W amount pr = Ok W' -> same_contribs W W'.
Proof. unfold rd_pay_debt. intros H; invp. cchain_same. Qed.
Lemma rd_enable_write_off_csame cx W W' : rd_enable_write_off cx W = Ok W' -> same_contribs W W'.
Proof. unfold rd_enable_write_off. intros H; invp. cchain_same. Qed.
Lemma rd_write_off_csame cx W amount pr W' : rd_write_off cx W amount pr = Ok W' -> same_contribs W W'.
Proof. unfold rd_write_off. intros H; invp. cchain_same. Qed.
Lemma rd_sweep_csame cx W W' : rd_sweep cx W = Ok W' -> same_contribs W W'.
Proof.
  unfold rd_sweep. intros H; invp. destruct (_ =? 0) in H.
  - invp. cchain_same.
  - invp. repeat match goal with H : match ?x with _ => _ end = Ok _ |- _ => destruct x; try discriminate H end. invp.
    cchain_same.
Qed.
Lemma rd_withdraw_sol_csame cx W amt W' : rd_withdraw_sol cx W amt = Ok W' -> same_contribs W W'.
Proof. unfold rd_withdraw_sol. intros H; invp. destruct (sb_kind _); invp. cchain_same. Qed.
Lemma init_dist_tail_c cx W ata tk jk dk d W' :
  match data (get W ata) with
  | DToken t =>
      if t_amount t =? 0 then Ok W else
      W <- tok_transfer cx W ata tk jk (t_amount t) [KRdJournal] ;;
      put_dist cx W dk (d <| d_prepaid_2z := wadd64 0 (t_amount t) |>) []
  | _ => Ok W
  end = Ok W' ->
  W' = W \/ exists W1 z, same_contribs W W1 /\ put_dist cx W1 dk (d <| d_prepaid_2z := z |>) [] = Ok W'.
Proof.
  destruct (data (get W ata)); intros H; try (left; congruence).
  destruct (_ =? 0) in H; [left; congruence|]. invp. right. eexists _, _. split; [eapply tok_transfer_csame|]; eassumption.
Qed.
Lemma rd_initialize_distribution_csame cx W W' : rd_initialize_distribution cx W = Ok W' -> same_contribs W W'.
Proof.
  unfold rd_initialize_distribution. intros H; invp.
  apply init_dist_tail_c in H.
  destruct H as [->|(W1 & z & S1 & H)].
  - cchain_same.
  - cchain_same.
Qed.

(* ------------------------------------------------------------------ 4. what one RD instruction may do to the record at k *)
Definition fresh_contrib (svc : key) : contrib :=
  {| cr_manager := default_key; cr_service := svc; cr_blocked := false; cr_recipients := [] |}.

(* `ms`: the account list (with the signer flags) of the frame that is asked about; `W`: the world before the step *)
Definition cstep (ix : rd_ix) (ms : list meta) (W : world) (k : key) (o o' : option contrib) : Prop :=
  match o, o' with
  | Some c, Some c' =>
      c' = c \/
      (exists l, ix = RConfigureContributor (CSRecipients l) /\ kvalid l /\ c' = c <| cr_recipients := l |> /\
                 is_signer ms (cr_manager c) = true) \/
      (exists b, ix = RConfigureContributor (CSBlock b) /\ c' = c <| cr_blocked := b |> /\
                 is_signer ms (cr_manager c) = true) \/
      (exists m ck cfg, ix = RSetRewardsManager m /\ c' = c <| cr_manager := m |> /\ cr_blocked c = false /\
                 rd_acct W ck (DConfig cfg) /\ c_paused cfg = false /\ is_signer ms (c_contributor_manager cfg) = true)
  | Some _, None => False
  | None, Some c' => exists svc, ix = RInitializeContributor svc /\ k = KRdContrib svc /\ c' = fresh_contrib svc
  | None, None => True
  end.
Lemma cstep_refl ix ms W k o : cstep ix ms W k o o.
Proof. destruct o; cbn; auto. Qed.
Lemma cstep_same ix ms W W' k : same_contribs W W' -> cstep ix ms W k (contrib_at W k) (contrib_at W' k).
Proof. intros H. rewrite H. apply cstep_refl. Qed.

Lemma is_signer_in ms m : In m ms -> msigner m = true -> is_signer ms (mkey m) = true.
Proof.
  intros Hin Hs. unfold is_signer. apply existsb_exists. exists m. split; [exact Hin|]. rewrite key_eqb_refl, Hs. reflexivity.
Qed.
Lemma contrib_at_write W k0 x k :
  contrib_at (put W k0 (get W k0 <| data := x |>)) k = if key_eqb k0 k then (if key_eqb (owner (get W k0)) KRd then cc x else None) else contrib_at W k.
Proof.
  rewrite contrib_at_put. destruct (key_eqb k0 k); [|reflexivity]. unfold contrib_of. cbn.
  destruct (key_eqb _ KRd); [|reflexivity]. destruct x; reflexivity.
Qed.

Lemma rd_set_rewards_manager_cstep cx W m W' k : rd_set_rewards_manager cx W m = Ok W' ->
  cstep (RSetRewardsManager m) (cx_metas cx) W k (contrib_at W k) (contrib_at W' k).
Proof.
  intros H. apply rd_set_rewards_manager_guards in H.
  destruct H as (m0 & m1 & m2 & rest & c & cr & Hms & Hc & Hs1 & Hk1 & Hp & Hw & Hcr & Hb & ->).
  rewrite contrib_at_write. destruct (key_eqb_spec (mkey m2) k) as [<-|Hne]; [|apply cstep_refl].
  pose proof Hcr as Hcr'. apply contrib_at_rd_acct in Hcr'. rewrite Hcr'. destruct Hcr as [Ho _]. rewrite Ho, key_eqb_refl.
  cbn [cc cstep]. right. right. right. exists m, (mkey m0), c. repeat split; try assumption; try apply Hc.
  rewrite <- Hk1. apply is_signer_in; [rewrite Hms; right; left; reflexivity|exact Hs1].
Qed.
Lemma rd_configure_contributor_cstep cx W s W' k : rd_configure_contributor cx W s = Ok W' ->
  cstep (RConfigureContributor s) (cx_metas cx) W k (contrib_at W k) (contrib_at W' k).
Proof.
  intros H. apply rd_configure_contributor_guards in H.
  destruct H as (m0 & m1 & m2 & rest & c & cr & Hms & Hc & Hp & Hw & Hcr & Hs2 & Hk2 & H).
  assert (Hsig : is_signer (cx_metas cx) (cr_manager cr) = true).
  { rewrite <- Hk2. apply is_signer_in; [rewrite Hms; right; right; left; reflexivity|exact Hs2]. }
  pose proof Hcr as Hcr'. apply contrib_at_rd_acct in Hcr'. destruct Hcr as [Ho _].
  destruct s as [l|b].
  - destruct H as [Hv ->]. rewrite contrib_at_write. destruct (key_eqb_spec (mkey m1) k) as [<-|Hne]; [|apply cstep_refl].
    rewrite Hcr', Ho, key_eqb_refl. cbn [cc cstep]. right. left. exists l.
    split; [reflexivity|]. split; [apply recipients_new_k_spec, Hv|]. split; [reflexivity|exact Hsig].
  - subst W'. rewrite contrib_at_write. destruct (key_eqb_spec (mkey m1) k) as [<-|Hne]; [|apply cstep_refl].
    rewrite Hcr', Ho, key_eqb_refl. cbn [cc cstep]. right. right. left. exists b. repeat split; try assumption; reflexivity.
Qed.
Lemma rd_initialize_contributor_cstep cx W svc W' k : rd_initialize_contributor cx W svc = Ok W' ->
  cstep (RInitializeContributor svc) (cx_metas cx) W k (contrib_at W k) (contrib_at W' k).
Proof.
  unfold rd_initialize_contributor. intros H; invp. keyhyps. cprim_facts. rw_contribs.
  destruct (key_eqb_spec (KRdContrib svc) k) as [<-|Hne]; [|apply cstep_refl].
  rewrite H. cbn [cstep].
  destruct (key_eqb _ KRd); [|exact I]. cbn [cc]. exists svc. auto.
Qed.

Theorem rd_process_cstep cx W ix W' k : rd_process cx W ix = Ok W' ->
  cstep ix (cx_metas cx) W k (contrib_at W k) (contrib_at W' k).
Proof.
  destruct ix; cbn [rd_process]; intros H;
    try solve [ apply cstep_same;
      first [ eapply rd_initialize_program_csame; eassumption | eapply rd_migrate_csame; eassumption
            | eapply rd_set_admin_csame; eassumption | eapply rd_configure_program_csame; eassumption
            | eapply rd_initialize_journal_csame; eassumption | eapply rd_initialize_distribution_csame; eassumption
            | eapply rd_configure_debt_csame; eassumption | eapply rd_finalize_debt_csame; eassumption
            | eapply rd_configure_rewards_csame; eassumption | eapply rd_finalize_rewards_csame; eassumption
            | eapply rd_distribute_rewards_csame; eassumption | eapply rd_verify_root_csame; eassumption
            | eapply rd_initialize_deposit_csame; eassumption | eapply rd_pay_debt_csame; eassumption
            | eapply rd_enable_write_off_csame; eassumption | eapply rd_write_off_csame; eassumption
            | eapply rd_initialize_swap_destination_csame; eassumption | eapply rd_sweep_csame; eassumption
            | eapply rd_withdraw_sol_csame; eassumption ] ].
  - apply rd_initialize_contributor_cstep, H.
  - apply rd_set_rewards_manager_cstep, H.
  - apply rd_configure_contributor_cstep, H.
Qed.

(* ------------------------------------------------------------------ 5. the other programs *)
Ltac cprim_extra ::=
  match goal with
  | H : distribute_loop _ _ _ _ _ _ _ _ _ = Ok _ |- _ => apply distribute_loop_csame in H
  | H : swap_dequeue_cpi _ _ _ _ _ _ _ _ _ = Ok _ |- _ => apply swap_dequeue_cpi_csame in H
  | H : pp_zc_config _ _ _ = Ok _ |- _ => apply pp_zc_config_cnone in H
  | H : pp_verified _ _ _ _ = Ok _ |- _ => apply pp_verified_cnone in H
  | H : sw_zc_fills _ _ = Ok _ |- _ => apply sw_zc_fills_cnone in H
  | H : rd_withdraw_sol _ _ _ = Ok _ |- _ => apply rd_withdraw_sol_csame in H
  end.
Lemma pp_process_csame cx W ix W' : pp_process cx W ix = Ok W' -> same_contribs W W'.
Proof.
  destruct ix; cbn [pp_process]; intros H.
  - unfold pp_initialize_program in H. invp. cchain_same.
  - unfold pp_set_admin in H. invp. cchain_same.
  - unfold pp_configure_program in H. invp. cchain_same.
  - unfold pp_request_access in H. invp. cchain_same.
  - unfold pp_grant_access in H. invp. cchain_same.
  - unfold pp_deny_access in H. invp. cchain_same.
Qed.
Lemma withdraw_sol_cpi_csame cx W cfg auth jk dest sol sib W' : withdraw_sol_cpi cx W cfg auth jk dest sol sib = Ok W' -> same_contribs W W'.
Proof. unfold withdraw_sol_cpi. intros H; invp. eapply rd_withdraw_sol_csame; eassumption. Qed.
Lemma sw_process_csame cx W ix W' : sw_process cx W ix = Ok W' -> same_contribs W W'.
Proof.
  destruct ix; cbn [sw_process]; intros H.
  - unfold sw_initialize in H. invp. cchain_same.
  - unfold sw_buy_sol, withdraw_sol_cpi in H. invp. cchain_same.
  - invp. eapply sw_dequeue_fills_csame; eassumption.
Qed.

(* ------------------------------------------------------------------ 6. one instruction of any program, rogue CPI wrappers included *)
(* the RD instruction at the bottom of a stack of rogue CPI wrappers *)
Fixpoint rd_frame (d : ixdata) : option rd_ix :=
  match d with IxRd i => Some i | IxRogueCpi inner => rd_frame inner | _ => None end.
Lemma rd_frame_mentions d r : rd_frame d = Some r <-> mentions r d.
Proof. induction d; cbn; try (split; [discriminate|contradiction]); [|exact IHd]. split; [intros H; injection H; auto|intros ->; reflexivity]. Qed.

Definition cstepD (d : ixdata) (ms : list meta) (W : world) (k : key) (o o' : option contrib) : Prop :=
  match rd_frame d with Some ix => cstep ix ms W k o o' | None => o' = o end.

Lemma cstep_signers ix ms ms' W k o o' :
  (forall x, is_signer ms' x = true -> is_signer ms x = true) -> cstep ix ms' W k o o' -> cstep ix ms W k o o'.
Proof.
  intros Hs. destruct o as [c|], o' as [c'|]; cbn; auto.
  intros [H|[(l & H1 & H2 & H3 & H4)|[(b & H1 & H2 & H3)|(m & ck & cfg & H1 & H2 & H3 & H4 & H5 & H6)]]].
  - left; exact H.
  - right; left. exists l. auto.
  - right; right; left. exists b. auto.
  - right; right; right. exists m, ck, cfg. split; [exact H1|]. split; [exact H2|]. split; [exact H3|]. split; [exact H4|]. split; [exact H5|auto].
Qed.
(* a wrapper that signs for no PDA cannot add signers *)
Lemma cpi_metas_signer cx callee want ms' x :
  cpi_metas cx callee want [] = Ok ms' -> is_signer ms' x = true -> is_signer (cx_metas cx) x = true.
Proof.
  intros H Hs. pose proof (cpi_metas_ok _ _ _ _ _ H) as [_ Hall].
  unfold cpi_metas in H. invp. unfold is_signer in Hs at 1. apply existsb_exists in Hs. destruct Hs as (m' & Hin & Hm').
  apply in_map_iff in Hin. destruct Hin as (m & <- & Hin). cbn in Hm'. apply andb_true_iff in Hm'. destruct Hm' as [Hk Hsg].
  apply key_eqb_eq in Hk. unfold is_signer in Hsg. apply existsb_exists in Hsg. destruct Hsg as (m2 & Hin2 & Hq2).
  apply andb_true_iff in Hq2. destruct Hq2 as [Hk2 Hs2]. apply key_eqb_eq in Hk2.
  destruct (Hall m2 Hin2) as (_ & _ & Hsig). destruct (Hsig Hs2) as [S|S].
  - rewrite <- Hk, <- Hk2. exact S.
  - unfold pda_signs in S. cbn in S. discriminate S.
Qed.

Theorem exec_data_cstep : forall d prog ms h sib W W' k, exec_data prog d ms h sib W = Ok W' ->
  cstepD d ms W k (contrib_at W k) (contrib_at W' k).
Proof.
  induction d; intros prog ms h sib W W' k H; destruct prog; cbn [exec_data] in H; invp; unfold cstepD; cbn [rd_frame].
  all: try solve [ apply (rd_process_cstep _ _ _ _ _ Hm)
                 | first [ eapply pp_process_csame; eassumption
                         | eapply sw_process_csame; eassumption
                         | eapply sys_transfer_core_csame; eassumption
                         | eapply sys_create_account_core_csame; eassumption
                         | eapply tok_transfer_core_csame; eassumption
                         | eapply tok_burn_core_csame; eassumption
                         | reflexivity
                         | eapply csame_trans; [eapply tok_transfer_checked_csame; eassumption|eapply withdraw_sol_cpi_csame; eassumption] ] ].
  - destruct ms as [|callee rest]; invp.
    specialize (IHd _ _ _ _ _ _ k Hm). unfold cstepD in IHd. destruct (rd_frame d); [|exact IHd].
    eapply cstep_signers; [|exact IHd]. intros x. apply (cpi_metas_signer _ _ _ _ _ Hm1).
  - match goal with Hb : (if ?b then _ else _) = Ok _ |- _ => destruct b; revert Hb end.
    + intros H; invp. eapply csame_trans; [eapply tok_transfer_checked_csame; eassumption|eapply withdraw_sol_cpi_csame; eassumption].
    + destruct (nthk ms 8); intros H; invp. eapply withdraw_sol_cpi_csame; eassumption.
Qed.

(* ------------------------------------------------------------------ 7. B1: every stored table is empty or valid *)
Definition all_tables_ok (W : world) : Prop := forall k c, contrib_at W k = Some c -> table_ok (cr_recipients c).

Lemma cstep_table ix ms W k o o' : cstep ix ms W k o o' ->
  (forall c, o = Some c -> table_ok (cr_recipients c)) -> forall c', o' = Some c' -> table_ok (cr_recipients c').
Proof.
  destruct o as [c|], o' as [c0|]; cbn; intros H Ht c' E; try discriminate E; injection E as <-.
  - specialize (Ht c eq_refl).
    destruct H as [->|[(l & _ & Hv & -> & _)|[(b & _ & -> & _)|(m & ck & cfg & _ & -> & _)]]]; cbn; auto. right. exact Hv.
  - destruct H as (svc & _ & _ & ->). left. reflexivity.
Qed.
Lemma cstepD_table d ms W k o o' : cstepD d ms W k o o' ->
  (forall c, o = Some c -> table_ok (cr_recipients c)) -> forall c', o' = Some c' -> table_ok (cr_recipients c').
Proof. unfold cstepD. destruct (rd_frame d); [apply cstep_table|]. intros ->. auto. Qed.

Theorem exec_data_tables d prog ms h sib W W' : exec_data prog d ms h sib W = Ok W' -> all_tables_ok W -> all_tables_ok W'.
Proof.
  intros H G k c' Hc'. eapply cstepD_table; [eapply exec_data_cstep; exact H| |exact Hc']. intros c Hc. eapply G; exact Hc.
Qed.
Theorem exec_ixs_tables t : forall ixs prev W W', exec_ixs t ixs prev W = Ok W' -> all_tables_ok W -> all_tables_ok W'.
Proof.
  induction ixs as [|i tl IH]; intros prev W W' H G; cbn [exec_ixs] in H; invp; [exact G|].
  eapply IH; [eassumption|]. eapply exec_data_tables; eassumption.
Qed.
Lemma contrib_at_purge W k : contrib_at (purge W) k = if lamports (get W k) =? 0 then None else contrib_at W k.
Proof. unfold contrib_at. rewrite get_purge. destruct (_ =? 0); reflexivity. Qed.
Theorem all_tables_ok_tx W t W' ok : all_tables_ok W -> exec_tx W t = (W', ok) -> all_tables_ok W'.
Proof.
  intros G. unfold exec_tx. destruct (negb (tx_wf t)); [intros H; injection H as <- <-; exact G|].
  destruct (exec_ixs t (tx_ixs t) None W) as [W1|e] eqn:E; [|intros H; injection H as <- <-; exact G].
  destruct (rent_ok t W W1); [|intros H; injection H as <- <-; exact G].
  intros H; injection H as <- <-. intros k c Hc. rewrite contrib_at_purge in Hc. destruct (_ =? 0); [discriminate|].
  eapply (exec_ixs_tables _ _ _ _ _ E G); eassumption.
Qed.

(* the operations that are not transactions never touch a contributor record *)
Lemma step_nontx_contrib_at W o k : honest_op o -> (forall t, o <> OTx t) -> contrib_at (step W o) k = contrib_at W k.
Proof.
  destruct o as [t|ts|ak lam|fk fa|mk_ amt|payer o_]; intros Ho Hn; unfold step; cbn [exec_op].
  - exfalso. eapply Hn. reflexivity.
  - reflexivity.
  - cbn [fst]. apply cput_same. reflexivity.
  - contradiction.
  - destruct (as_token W mk_) as [tk|] eqn:E1; [|reflexivity].
    destruct (as_mint W KMint) as [m|] eqn:E2; [|reflexivity].
    cbn [fst].
    pose proof (put_token_csame W mk_ (tk <| t_amount := t_amount tk + amt |>) (as_token_cnone _ _ _ E1)) as S1.
    rewrite contrib_at_put. destruct (key_eqb_spec KMint k) as [<-|Hne]; [|apply S1].
    rewrite (as_mint_cnone _ _ _ E2). unfold contrib_of. cbn. destruct (key_eqb _ KRd); reflexivity.
  - destruct (_ && _) eqn:E; [|reflexivity]. cbn [fst].
    apply andb_true_iff in E. destruct E as [E _]. apply andb_true_iff in E. destruct E as [_ E]. apply key_eqb_eq in E.
    rewrite contrib_at_put. destruct (key_eqb_spec (KAta o_ KMint) k) as [<-|Hne].
    + rewrite (contrib_at_owner _ _ _ E) by discriminate. reflexivity.
    + rewrite contrib_at_put. destruct (key_eqb_spec payer k) as [<-|Hne2]; reflexivity.
Qed.
Theorem all_tables_ok_op W o : honest_op o -> all_tables_ok W -> all_tables_ok (fst (exec_op W o)).
Proof.
  intros Ho G. destruct o as [t| | | | | ] eqn:Eo.
  - cbn [exec_op]. destruct (exec_tx W t) as [W' ok] eqn:E. cbn [fst]. eapply all_tables_ok_tx; eassumption.
  - intros k0 c Hc. change (fst (exec_op W (OSetClock ts))) with (step W (OSetClock ts)) in Hc.
    rewrite step_nontx_contrib_at in Hc by (auto; discriminate). eapply G; eassumption.
  - intros k0 c Hc. change (fst (exec_op W (OAirdrop k lam))) with (step W (OAirdrop k lam)) in Hc.
    rewrite step_nontx_contrib_at in Hc by (auto; discriminate). eapply G; eassumption.
  - contradiction.
  - intros k0 c Hc. change (fst (exec_op W (OMintTo k amt))) with (step W (OMintTo k amt)) in Hc.
    rewrite step_nontx_contrib_at in Hc by (auto; discriminate). eapply G; eassumption.
  - intros k0 c Hc. change (fst (exec_op W (OCreateAta payer owner_))) with (step W (OCreateAta payer owner_)) in Hc.
    rewrite step_nontx_contrib_at in Hc by (auto; discriminate). eapply G; eassumption.
Qed.
Theorem all_tables_ok_run : forall ops W, Forall honest_op ops -> all_tables_ok W -> all_tables_ok (run W ops).
Proof.
  induction ops as [|o ops IH]; intros W Hh G; [exact G|]. rewrite run_cons. inversion Hh as [|o' ops' Ho Hops]; subst.
  apply IH; [exact Hops|]. apply all_tables_ok_op; assumption.
Qed.
Theorem all_tables_ok_initial W : (forall k, owner (get W k) <> KRd) -> all_tables_ok W.
Proof.
  intros H k c Hc. apply contrib_at_rd_acct in Hc. destruct Hc as [Ho _]. exfalso. eapply H; eassumption.
Qed.
(* B1 in the words of the property: in every state reachable without OForge from a world without RD accounts, the stored
   recipient table of every contributor account is empty or has 1..8 entries, no default key, no zero share, total 100% *)
Theorem stored_table_empty_or_valid ops W k c :
  (forall k, owner (get W k) <> KRd) -> Forall honest_op ops -> rd_acct (run W ops) k (DContrib c) ->
  cr_recipients c = [] \/ kvalid (cr_recipients c).
Proof.
  intros H0 Hh Hc. apply contrib_at_rd_acct in Hc.
  exact (all_tables_ok_run ops W Hh (all_tables_ok_initial W H0) k c Hc).
Qed.

(* ------------------------------------------------------------------ 8. B2 at transaction level *)
Lemma effective_signer t ms x : is_signer (effective t ms) x = true -> In x (tx_signers t).
Proof.
  unfold is_signer, effective. intros H. apply existsb_exists in H. destruct H as (m' & Hin & H).
  apply in_map_iff in Hin. destruct Hin as (m & <- & _). cbn in H. apply andb_true_iff in H. destruct H as [Hk Hs].
  apply key_eqb_eq in Hk. subst x. unfold msg_signer in Hs. apply existsb_exists in Hs. destruct Hs as (y & Hy & E).
  apply key_eqb_eq in E. subst y. exact Hy.
Qed.

(* the step relation with the message signers instead of the frame's account list *)
Definition cstepT (ix : rd_ix) (signers : list key) (W : world) (k : key) (o o' : option contrib) : Prop :=
  match o, o' with
  | Some c, Some c' =>
      c' = c \/
      (exists l, ix = RConfigureContributor (CSRecipients l) /\ kvalid l /\ c' = c <| cr_recipients := l |> /\
                 In (cr_manager c) signers) \/
      (exists b, ix = RConfigureContributor (CSBlock b) /\ c' = c <| cr_blocked := b |> /\ In (cr_manager c) signers) \/
      (exists m ck cfg, ix = RSetRewardsManager m /\ c' = c <| cr_manager := m |> /\ cr_blocked c = false /\
                 rd_acct W ck (DConfig cfg) /\ c_paused cfg = false /\ In (c_contributor_manager cfg) signers)
  | Some _, None => False
  | None, Some c' => exists svc, ix = RInitializeContributor svc /\ k = KRdContrib svc /\ c' = fresh_contrib svc
  | None, None => True
  end.
Lemma cstep_cstepT ix t ms W k o o' : cstep ix (effective t ms) W k o o' -> cstepT ix (tx_signers t) W k o o'.
Proof.
  destruct o as [c|], o' as [c'|]; cbn; auto.
  intros [H|[(l & H1 & H2 & H3 & H4)|[(b & H1 & H2 & H3)|(m & ck & cfg & H1 & H2 & H3 & H4 & H5 & H6)]]].
  - left; exact H.
  - right; left. exists l. eauto using effective_signer.
  - right; right; left. exists b. eauto using effective_signer.
  - right; right; right. exists m, ck, cfg. split; [exact H1|]. split; [exact H2|]. split; [exact H3|]. split; [exact H4|].
    split; [exact H5|eauto using effective_signer].
Qed.

(* one top-level instruction of a transaction *)
Theorem tx_instr_cstep t i prev W W' k :
  exec_data (i_prog i) (i_data i) (effective t (i_metas i)) 1 prev W = Ok W' ->
  match rd_frame (i_data i) with
  | Some ix => cstepT ix (tx_signers t) W k (contrib_at W k) (contrib_at W' k)
  | None => contrib_at W' k = contrib_at W k
  end.
Proof.
  intros H. pose proof (exec_data_cstep _ _ _ _ _ _ _ k H) as R. unfold cstepD in R.
  destruct (rd_frame (i_data i)); [|exact R]. eapply cstep_cstepT; exact R.
Qed.

Lemma option_eq_dec_contrib (a b : option contrib) : {a = b} + {a <> b}.
Proof.
  assert (K : forall x y : key, {x = y} + {x <> y}) by apply key_eq_dec.
  assert (P : forall x y : key * N, {x = y} + {x <> y}) by (decide equality; apply N.eq_dec).
  assert (L : forall x y : list (key * N), {x = y} + {x <> y}) by (apply list_eq_dec, P).
  assert (C : forall x y : contrib, {x = y} + {x <> y}) by (decide equality; apply Bool.bool_dec).
  decide equality.
Qed.

(* the FIRST instruction of a list that changes the record at k: until then the record is as at the start *)
Lemma exec_ixs_first_change t : forall ixs prev W W' k, exec_ixs t ixs prev W = Ok W' -> contrib_at W' k <> contrib_at W k ->
  exists i prev' W1 W2, In i ixs /\
    exec_data (i_prog i) (i_data i) (effective t (i_metas i)) 1 prev' W1 = Ok W2 /\
    contrib_at W1 k = contrib_at W k /\ contrib_at W2 k <> contrib_at W k.
Proof.
  induction ixs as [|i tl IH]; intros prev W W' k H Hne; cbn [exec_ixs] in H; invp; [congruence|].
  destruct (option_eq_dec_contrib (contrib_at a k) (contrib_at W k)) as [E|E].
  - rewrite <- E in Hne. destruct (IH _ _ _ _ H Hne) as (i' & p' & W1 & W2 & Hin & Hx & H1 & H2).
    exists i', p', W1, W2. split; [right; exact Hin|]. split; [exact Hx|]. split; congruence.
  - exists i, prev, W, a. split; [left; reflexivity|]. auto.
Qed.

Lemma exec_tx_ok_inv W t W' : exec_tx W t = (W', true) ->
  tx_wf t = true /\ exists W1, exec_ixs t (tx_ixs t) None W = Ok W1 /\ W' = purge W1.
Proof.
  unfold exec_tx. destruct (tx_wf t); cbn [negb]; [|discriminate].
  destruct (exec_ixs t (tx_ixs t) None W) as [W1|e]; [|discriminate].
  destruct (rent_ok t W W1); [|discriminate]. intros H; injection H as <-. split; [reflexivity|]. exists W1. auto.
Qed.
(* only wallets sign: a derived address or the all-zero key never appears among the message signers *)
Lemma tx_signer_wallet t x : tx_wf t = true -> In x (tx_signers t) -> exists n, x = KUser n.
Proof.
  unfold tx_wf. intros H Hin. apply andb_true_iff in H. destruct H as [_ H]. rewrite forallb_forall in H.
  specialize (H x Hin). destruct x; try discriminate H. eexists; reflexivity.
Qed.

(* B2, transactions: a successful transaction after which the record at k differs from the record `c` before it either
   purged the account, or contains an instruction (possibly under rogue CPI wrappers) that performed the first change:
   ConfigureContributor with the signature of c's rewards manager, or SetRewardsManager with c's block flag clear and the
   signature of the contributor manager of the config account it names (W1 = the world just before that instruction) *)
Theorem tx_contrib_change W t W' k c :
  exec_tx W t = (W', true) -> contrib_at W k = Some c -> contrib_at W' k <> Some c ->
  get W' k = empty_acct \/
  exists i ix W1 c', In i (tx_ixs t) /\ rd_frame (i_data i) = Some ix /\ c' <> c /\
    cstepT ix (tx_signers t) W1 k (Some c) (Some c').
Proof.
  intros H Hc Hne. apply exec_tx_ok_inv in H. destruct H as (_ & W1 & E & ->).
  rewrite contrib_at_purge in Hne. rewrite get_purge.
  destruct (lamports (get W1 k) =? 0); [left; reflexivity|]. right.
  rewrite <- Hc in Hne. destruct (exec_ixs_first_change _ _ _ _ _ _ E Hne) as (i & p' & Wa & Wb & Hin & Hx & H1 & H2).
  pose proof (tx_instr_cstep _ _ _ _ _ k Hx) as R. rewrite H1, Hc in R. rewrite Hc in H2.
  destruct (rd_frame (i_data i)) as [ix|] eqn:Ef; [|congruence].
  destruct (contrib_at Wb k) as [c'|] eqn:Eb; [|contradiction R].
  exists i, ix, Wa, c'. split; [exact Hin|]. split; [exact Ef|]. split; [congruence|exact R].
Qed.
(* ... and a record appears only through InitializeContributor, at the address derived from its service key *)
Theorem tx_contrib_created W t W' k c' :
  exec_tx W t = (W', true) -> contrib_at W k = None -> contrib_at W' k = Some c' ->
  exists i svc, In i (tx_ixs t) /\ mentions (RInitializeContributor svc) (i_data i) /\ k = KRdContrib svc.
Proof.
  intros H Hc Hc'. apply exec_tx_ok_inv in H. destruct H as (_ & W1 & E & ->).
  rewrite contrib_at_purge in Hc'. destruct (lamports (get W1 k) =? 0); [discriminate|].
  assert (Hne : contrib_at W1 k <> contrib_at W k) by congruence.
  destruct (exec_ixs_first_change _ _ _ _ _ _ E Hne) as (i & p' & Wa & Wb & Hin & Hx & H1 & H2).
  pose proof (tx_instr_cstep _ _ _ _ _ k Hx) as R. rewrite H1, Hc in R. rewrite Hc in H2.
  destruct (rd_frame (i_data i)) as [ix|] eqn:Ef; [|congruence].
  destruct (contrib_at Wb k) as [c2|] eqn:Eb; [|congruence]. cbn in R. destruct R as (svc & -> & -> & _).
  exists i, svc. split; [exact Hin|]. split; [apply rd_frame_mentions, Ef|reflexivity].
Qed.

(* per-field attribution over a whole instruction list / transaction *)
Definition touches (p : rd_ix -> bool) (d : ixdata) : bool := match rd_frame d with Some ix => p ix | None => false end.
Definition is_cfg_recipients (ix : rd_ix) : bool := match ix with RConfigureContributor (CSRecipients _) => true | _ => false end.
Definition is_cfg_block (ix : rd_ix) : bool := match ix with RConfigureContributor (CSBlock _) => true | _ => false end.
Definition is_set_manager (ix : rd_ix) : bool := match ix with RSetRewardsManager _ => true | _ => false end.

Lemma exec_ixs_field {A} (f : contrib -> A) (p : rd_ix -> bool) t :
  (forall ix ms W k c c', p ix = false -> cstep ix ms W k (Some c) (Some c') -> f c' = f c) ->
  forall ixs prev W W' k c c', exec_ixs t ixs prev W = Ok W' -> existsb (fun i => touches p (i_data i)) ixs = false ->
    contrib_at W k = Some c -> contrib_at W' k = Some c' -> f c' = f c.
Proof.
  intros Hf. induction ixs as [|i tl IH]; intros prev W W' k c c' H Hp Hc Hc'; cbn [exec_ixs] in H; invp; [congruence|].
  cbn [existsb] in Hp. apply orb_false_iff in Hp. destruct Hp as [Hp1 Hp2].
  pose proof (exec_data_cstep _ _ _ _ _ _ _ k Hm) as R. unfold cstepD in R. unfold touches in Hp1. rewrite Hc in R.
  destruct (rd_frame (i_data i)) as [ix|].
  - destruct (contrib_at a k) as [c1|] eqn:E1; [|contradiction R].
    rewrite (IH _ _ _ _ _ _ H Hp2 E1 Hc'). eapply Hf; eassumption.
  - eapply IH; eassumption.
Qed.
Lemma existsb_touches p ixs : existsb (fun i => touches p (i_data i)) ixs <> false ->
  exists i ix, In i ixs /\ mentions ix (i_data i) /\ p ix = true.
Proof.
  intros H. destruct (existsb _ ixs) eqn:E; [|congruence]. apply existsb_exists in E. destruct E as (i & Hin & Ht).
  unfold touches in Ht. destruct (rd_frame (i_data i)) as [ix|] eqn:Ef; [|discriminate].
  exists i, ix. split; [exact Hin|]. split; [apply rd_frame_mentions, Ef|exact Ht].
Qed.

Section TxFields.
  Variables (W : world) (t : tx) (W' : world) (k : key) (c c' : contrib).
  Hypothesis Htx : exec_tx W t = (W', true).
  Hypothesis Hc : contrib_at W k = Some c.
  Hypothesis Hc' : contrib_at W' k = Some c'.

  Lemma tx_field {A} (f : contrib -> A) (p : rd_ix -> bool) :
    (forall ix ms W k c c', p ix = false -> cstep ix ms W k (Some c) (Some c') -> f c' = f c) ->
    f c' <> f c -> exists i ix, In i (tx_ixs t) /\ mentions ix (i_data i) /\ p ix = true.
  Proof.
    intros Hf Hne. apply exec_tx_ok_inv in Htx. destruct Htx as (_ & W1 & E & ->).
    rewrite contrib_at_purge in Hc'. destruct (lamports (get W1 k) =? 0); [discriminate|].
    apply existsb_touches. intros Hp. apply Hne. eapply (exec_ixs_field f p t Hf); eassumption.
  Qed.

  (* the recipient table changes only in a transaction that contains ConfigureContributor(recipients) *)
  Theorem tx_recipients_changed_only_by : cr_recipients c' <> cr_recipients c ->
    exists i l, In i (tx_ixs t) /\ mentions (RConfigureContributor (CSRecipients l)) (i_data i).
  Proof.
    intros Hne. destruct (tx_field cr_recipients is_cfg_recipients) as (i & ix & Hin & Hm & Hp); [|exact Hne|].
    - intros ix ms W0 k0 c0 c1 Hp.
      intros [->|[(l & -> & _)|[(b & _ & -> & _)|(m & ck & cfg & _ & -> & _)]]]; try reflexivity. discriminate Hp.
    - destruct ix as [| | | | | | | | | | | | |[l|b]| | | | | | | |]; try discriminate Hp. exists i, l. auto.
  Qed.
  (* the block flag changes only in a transaction that contains ConfigureContributor(block) *)
  Theorem tx_blocked_changed_only_by : cr_blocked c' <> cr_blocked c ->
    exists i b, In i (tx_ixs t) /\ mentions (RConfigureContributor (CSBlock b)) (i_data i).
  Proof.
    intros Hne. destruct (tx_field cr_blocked is_cfg_block) as (i & ix & Hin & Hm & Hp); [|exact Hne|].
    - intros ix ms W0 k0 c0 c1 Hp.
      intros [->|[(l & _ & _ & -> & _)|[(b & -> & _)|(m & ck & cfg & _ & -> & _)]]]; try reflexivity. discriminate Hp.
    - destruct ix as [| | | | | | | | | | | | |[l|b]| | | | | | | |]; try discriminate Hp. exists i, b. auto.
  Qed.
  (* the rewards manager changes only in a transaction that contains SetRewardsManager *)
  Theorem tx_manager_changed_only_by : cr_manager c' <> cr_manager c ->
    exists i m, In i (tx_ixs t) /\ mentions (RSetRewardsManager m) (i_data i).
  Proof.
    intros Hne. destruct (tx_field cr_manager is_set_manager) as (i & ix & Hin & Hm & Hp); [|exact Hne|].
    - intros ix ms W0 k0 c0 c1 Hp.
      intros [->|[(l & _ & _ & -> & _)|[(b & _ & -> & _)|(m & ck & cfg & -> & _)]]]; try reflexivity. discriminate Hp.
    - destruct ix as [| | | | | | | | | | | |m| | | | | | | | |]; try discriminate Hp. exists i, m. auto.
  Qed.
  (* the service key of a record never changes *)
  Theorem tx_service_immutable : cr_service c' = cr_service c.
  Proof.
    destruct (key_eq_dec (cr_service c') (cr_service c)) as [E1|E1]; [exact E1|].
    destruct (tx_field cr_service (fun _ => false)) as (i & ix & _ & _ & Hp); [|exact E1|discriminate Hp].
    intros ix ms W0 k0 c0 c1 _.
    intros [->|[(l & _ & _ & -> & _)|[(b & _ & -> & _)|(m & ck & cfg & _ & -> & _)]]]; reflexivity.
  Qed.
  (* without a SetRewardsManager in the transaction, any change of the record carries its manager's signature *)
  Theorem tx_change_needs_manager_signature :
    (forall i m, In i (tx_ixs t) -> ~ mentions (RSetRewardsManager m) (i_data i)) -> c' <> c ->
    In (cr_manager c) (tx_signers t) /\ exists n, cr_manager c = KUser n.
  Proof.
    intros Hno Hne. assert (Hx : contrib_at W' k <> Some c) by congruence.
    destruct (tx_contrib_change _ _ _ _ _ Htx Hc Hx) as [Hp|(i & ix & W1 & c2 & Hin & Hf & Hn2 & R)].
    - exfalso. unfold contrib_at in Hc'. rewrite Hp in Hc'. discriminate Hc'.
    - assert (S : In (cr_manager c) (tx_signers t)).
      { cbn in R. destruct R as [->|[(l & _ & _ & _ & S)|[(b & _ & _ & S)|(m & ck & cfg & -> & _)]]]; try assumption; try congruence.
        exfalso. eapply Hno; [exact Hin|]. apply rd_frame_mentions. exact Hf. }
      split; [exact S|]. apply exec_tx_ok_inv in Htx. destruct Htx as (Hwf & _). eapply tx_signer_wallet; eassumption.
  Qed.
End TxFields.

(* a transaction with a single top-level instruction (of any program, wrappers allowed): the full step relation, read
   against the world before the transaction *)
Theorem tx_single_cstep W t W' i k c c' :
  exec_tx W t = (W', true) -> tx_ixs t = [i] -> contrib_at W k = Some c -> contrib_at W' k = Some c' ->
  match rd_frame (i_data i) with
  | Some ix => cstepT ix (tx_signers t) W k (Some c) (Some c')
  | None => c' = c
  end.
Proof.
  intros H Hi Hc Hc'. apply exec_tx_ok_inv in H. destruct H as (_ & W1 & E & ->). rewrite Hi in E. cbn [exec_ixs] in E. invp.
  rewrite contrib_at_purge in Hc'. destruct (lamports (get W1 k) =? 0); [discriminate|].
  pose proof (tx_instr_cstep _ _ _ _ _ k Hm) as R. rewrite Hc, Hc' in R.
  destruct (rd_frame (i_data i)); [exact R|congruence].
Qed.

(* ------------------------------------------------------------------ 9. non-vacuity *)
Definition x16_cfg : rd_config := rd_config_default <| c_contributor_manager := KUser 2 |>.
Definition x16_svc : key := KUser 10.
Definition x16_cr (blocked : bool) : contrib :=
  {| cr_manager := KUser 3; cr_service := x16_svc; cr_blocked := blocked; cr_recipients := [] |}.
Definition x16_W (cr : contrib) : world :=
  {| accts := [ (KRdConfig, {| lamports := rent LEN_CONFIG_ALLOC; owner := KRd; alen := LEN_CONFIG_ALLOC; data := DConfig x16_cfg |});
                (KRdContrib x16_svc, {| lamports := rent LEN_CONTRIB; owner := KRd; alen := LEN_CONTRIB; data := DContrib cr |}) ];
     now := 1000 |}.
Definition x16_good : list (key * N) := [(KUser 21, 4000); (KUser 22, 6000)].
Definition x16_cfg_metas (mgr : key) : list meta := [mk KRdConfig false false; mk (KRdContrib x16_svc) false true; mk mgr true false].
Definition x16_tx_cfg (signer : key) (s : contrib_setting) : tx :=
  {| tx_signers := [signer];
     tx_ixs := [ {| i_prog := KRd; i_data := IxRd (RConfigureContributor s); i_metas := x16_cfg_metas signer |} ] |}.
(* the same instruction re-issued by a harness-only rogue program through CPI *)
Definition x16_tx_cfg_rogue (signer : key) (s : contrib_setting) : tx :=
  {| tx_signers := [signer];
     tx_ixs := [ {| i_prog := KRogue 0; i_data := IxRogueCpi (IxRd (RConfigureContributor s));
                    i_metas := mk KRd false false :: x16_cfg_metas signer |} ] |}.
Definition x16_tx_setmgr (signer newm : key) : tx :=
  {| tx_signers := [signer];
     tx_ixs := [ {| i_prog := KRd; i_data := IxRd (RSetRewardsManager newm);
                    i_metas := [mk KRdConfig false false; mk signer true false; mk (KRdContrib x16_svc) false true] |} ] |}.

Example kvalid_nonvacuous : kvalid x16_good /\ ~ kvalid [(KUser 21, 4000); (KUser 22, 5000)] /\ ~ kvalid [(default_key, 10000)] /\ ~ kvalid [].
Proof.
  split; [apply recipients_new_k_spec; vm_compute; reflexivity|].
  repeat split; intros H; apply recipients_new_k_spec in H; vm_compute in H; discriminate H.
Qed.
(* the rewards manager sets a valid table (directly and through a rogue wrapper); the result is stored and valid *)
Example configure_recipients_accepted :
  (exists W', exec_tx (x16_W (x16_cr false)) (x16_tx_cfg (KUser 3) (CSRecipients x16_good)) = (W', true) /\
     contrib_at W' (KRdContrib x16_svc) = Some (x16_cr false <| cr_recipients := x16_good |>)) /\
  (exists W', exec_tx (x16_W (x16_cr false)) (x16_tx_cfg_rogue (KUser 3) (CSRecipients x16_good)) = (W', true) /\
     contrib_at W' (KRdContrib x16_svc) = Some (x16_cr false <| cr_recipients := x16_good |>)).
Proof. split; eexists; (split; [vm_compute; reflexivity|vm_compute; reflexivity]). Qed.
(* anyone else (the contributor manager included) is refused, an invalid table is refused: the stored table is intact *)
Example configure_recipients_refused :
  let W := x16_W (x16_cr false <| cr_recipients := x16_good |>) in
  exec_tx W (x16_tx_cfg (KUser 2) (CSRecipients [(KUser 23, 10000)])) = (W, false) /\
  exec_tx W (x16_tx_cfg_rogue (KUser 4) (CSRecipients [(KUser 23, 10000)])) = (W, false) /\
  exec_tx W (x16_tx_cfg (KUser 3) (CSRecipients [(KUser 21, 4000); (KUser 22, 5000)])) = (W, false) /\
  exec_tx W (x16_tx_cfg (KUser 3) (CSRecipients [(KUser 21, 10000); (KUser 22, 0)])) = (W, false) /\
  exec_tx W (x16_tx_cfg (KUser 3) (CSRecipients [(default_key, 10000)])) = (W, false) /\
  exec_tx W (x16_tx_cfg (KUser 3) (CSRecipients [])) = (W, false).
Proof. repeat split; vm_compute; reflexivity. Qed.
(* manager assignment: by the contributor manager only, and not while the block flag is set; the flag is the manager's *)
Example set_manager_rules :
  (exists W', exec_tx (x16_W (x16_cr false)) (x16_tx_setmgr (KUser 2) (KUser 5)) = (W', true) /\
     contrib_at W' (KRdContrib x16_svc) = Some (x16_cr false <| cr_manager := KUser 5 |>)) /\
  exec_tx (x16_W (x16_cr true)) (x16_tx_setmgr (KUser 2) (KUser 5)) = (x16_W (x16_cr true), false) /\
  exec_tx (x16_W (x16_cr false)) (x16_tx_setmgr (KUser 3) (KUser 5)) = (x16_W (x16_cr false), false) /\
  (exists W', exec_tx (x16_W (x16_cr false)) (x16_tx_cfg (KUser 3) (CSBlock true)) = (W', true) /\
     contrib_at W' (KRdContrib x16_svc) = Some (x16_cr true)) /\
  exec_tx (x16_W (x16_cr true)) (x16_tx_cfg (KUser 2) (CSBlock false)) = (x16_W (x16_cr true), false).
Proof.
  split; [eexists; split; vm_compute; reflexivity|]. split; [vm_compute; reflexivity|]. split; [vm_compute; reflexivity|].
  split; [eexists; split; vm_compute; reflexivity|]. vm_compute; reflexivity.
Qed.
(* the hypotheses of the transaction-level theorems are satisfiable and their conclusions informative *)
Example tx_contrib_change_nonvacuous :
  let W := x16_W (x16_cr false) in let t := x16_tx_cfg_rogue (KUser 3) (CSRecipients x16_good) in
  exists W', exec_tx W t = (W', true) /\ contrib_at W (KRdContrib x16_svc) = Some (x16_cr false) /\
    contrib_at W' (KRdContrib x16_svc) <> Some (x16_cr false) /\ get W' (KRdContrib x16_svc) <> empty_acct /\
    In (cr_manager (x16_cr false)) (tx_signers t).
Proof.
  eexists. split; [vm_compute; reflexivity|]. split; [vm_compute; reflexivity|].
  split; [vm_compute; discriminate|]. split; [vm_compute; discriminate|]. left; reflexivity.
Qed.
Lemma x16_tables_ok : all_tables_ok (x16_W (x16_cr false)).
Proof.
  intros k c Hc. left. unfold contrib_at, get, x16_W in Hc. cbn [accts lookup] in Hc.
  destruct (key_eqb k KRdConfig); [vm_compute in Hc; discriminate|].
  destruct (key_eqb k (KRdContrib x16_svc)); [vm_compute in Hc; injection Hc as <-; reflexivity|]. vm_compute in Hc. discriminate.
Qed.
Example all_tables_ok_run_nonvacuous :
  let ops := [OTx (x16_tx_cfg (KUser 3) (CSRecipients x16_good)); OAirdrop (KUser 9) 5; OTx (x16_tx_setmgr (KUser 2) (KUser 5))] in
  Forall honest_op ops /\ all_tables_ok (x16_W (x16_cr false)) /\
  contrib_at (run (x16_W (x16_cr false)) ops) (KRdContrib x16_svc) =
    Some {| cr_manager := KUser 5; cr_service := x16_svc; cr_blocked := false; cr_recipients := x16_good |}.
Proof. split; [repeat constructor|]. split; [exact x16_tables_ok|]. vm_compute. reflexivity. Qed.

(* ------------------------------------------------------------------ 10. B2 in plain words, one instruction (any program, any depth) *)
Section OneInstruction.
  Variables (d : ixdata) (prog : key) (ms : list meta) (h : N) (sib : option sibling) (W W' : world) (k : key).
  Hypothesis Hx : exec_data prog d ms h sib W = Ok W'.

  (* a record is never destroyed or retyped by an instruction *)
  Theorem contrib_persists c : contrib_at W k = Some c -> exists c', contrib_at W' k = Some c'.
  Proof.
    intros Hc. pose proof (exec_data_cstep _ _ _ _ _ _ _ k Hx) as R. unfold cstepD in R. rewrite Hc in R.
    destruct (rd_frame d); [|eauto]. destruct (contrib_at W' k) as [c'|]; [eauto|contradiction R].
  Qed.
  Theorem recipients_changed_only_by c c' :
    contrib_at W k = Some c -> contrib_at W' k = Some c' -> cr_recipients c' <> cr_recipients c ->
    exists l, mentions (RConfigureContributor (CSRecipients l)) d /\ kvalid l /\ c' = c <| cr_recipients := l |> /\
              is_signer ms (cr_manager c) = true.
  Proof.
    intros Hc Hc' Hne. pose proof (exec_data_cstep _ _ _ _ _ _ _ k Hx) as R. unfold cstepD in R. rewrite Hc, Hc' in R.
    destruct (rd_frame d) as [ix|] eqn:Ef; [|congruence]. cbn in R.
    destruct R as [->|[(l & -> & Hv & -> & S)|[(b & _ & -> & _)|(m & ck & cfg & _ & -> & _)]]]; try (exfalso; apply Hne; reflexivity).
    exists l. split; [apply rd_frame_mentions, Ef|]. auto.
  Qed.
  Theorem blocked_changed_only_by c c' :
    contrib_at W k = Some c -> contrib_at W' k = Some c' -> cr_blocked c' <> cr_blocked c ->
    exists b, mentions (RConfigureContributor (CSBlock b)) d /\ c' = c <| cr_blocked := b |> /\ is_signer ms (cr_manager c) = true.
  Proof.
    intros Hc Hc' Hne. pose proof (exec_data_cstep _ _ _ _ _ _ _ k Hx) as R. unfold cstepD in R. rewrite Hc, Hc' in R.
    destruct (rd_frame d) as [ix|] eqn:Ef; [|congruence]. cbn in R.
    destruct R as [->|[(l & _ & _ & -> & _)|[(b & -> & -> & S)|(m & ck & cfg & _ & -> & _)]]]; try (exfalso; apply Hne; reflexivity).
    exists b. split; [apply rd_frame_mentions, Ef|]. auto.
  Qed.
  Theorem manager_changed_only_by c c' :
    contrib_at W k = Some c -> contrib_at W' k = Some c' -> cr_manager c' <> cr_manager c ->
    exists m ck cfg, mentions (RSetRewardsManager m) d /\ c' = c <| cr_manager := m |> /\ cr_blocked c = false /\
      rd_acct W ck (DConfig cfg) /\ c_paused cfg = false /\ is_signer ms (c_contributor_manager cfg) = true.
  Proof.
    intros Hc Hc' Hne. pose proof (exec_data_cstep _ _ _ _ _ _ _ k Hx) as R. unfold cstepD in R. rewrite Hc, Hc' in R.
    destruct (rd_frame d) as [ix|] eqn:Ef; [|congruence]. cbn in R.
    destruct R as [->|[(l & _ & _ & -> & _)|[(b & _ & -> & _)|(m & ck & cfg & -> & -> & R)]]]; try (exfalso; apply Hne; reflexivity).
    exists m, ck, cfg. split; [apply rd_frame_mentions, Ef|]. split; [reflexivity|exact R].
  Qed.
  Theorem contrib_created_only_by c' : contrib_at W k = None -> contrib_at W' k = Some c' ->
    exists svc, mentions (RInitializeContributor svc) d /\ k = KRdContrib svc /\ c' = fresh_contrib svc.
  Proof.
    intros Hc Hc'. pose proof (exec_data_cstep _ _ _ _ _ _ _ k Hx) as R. unfold cstepD in R. rewrite Hc, Hc' in R.
    destruct (rd_frame d) as [ix|] eqn:Ef; [|congruence]. cbn in R. destruct R as (svc & -> & -> & ->).
    exists svc. split; [apply rd_frame_mentions, Ef|]. auto.
  Qed.
End OneInstruction.

(* ------------------------------------------------------------------ 11. with the canonical-address invariant (Lemmas_Canon) *)
(* in a world where typed accounts sit at their derived addresses (every world reachable without OForge), "the config
   account the instruction names" is THE program config and the record sits at the address of its service key *)
Theorem tx_single_manager_change_canonical W t W' i k c c' :
  typed_canonical W -> exec_tx W t = (W', true) -> tx_ixs t = [i] ->
  contrib_at W k = Some c -> contrib_at W' k = Some c' -> cr_manager c' <> cr_manager c ->
  exists m cfg, mentions (RSetRewardsManager m) (i_data i) /\ c' = c <| cr_manager := m |> /\ cr_blocked c = false /\
    rd_acct W KRdConfig (DConfig cfg) /\ c_paused cfg = false /\ In (c_contributor_manager cfg) (tx_signers t) /\
    k = KRdContrib (cr_service c).
Proof.
  intros Htc H Hi Hc Hc' Hne. pose proof (tx_single_cstep _ _ _ _ _ _ _ H Hi Hc Hc') as R.
  destruct (rd_frame (i_data i)) as [ix|] eqn:Ef; [|congruence]. cbn in R.
  destruct R as [->|[(l & _ & _ & -> & _)|[(b & _ & -> & _)|(m & ck & cfg & -> & -> & Hb & Hcfg & Hp & S)]]];
    try (exfalso; apply Hne; reflexivity).
  pose proof (rd_config_canonical _ _ _ Htc Hcfg) as ->.
  exists m, cfg. split; [apply rd_frame_mentions, Ef|]. split; [reflexivity|]. split; [exact Hb|]. split; [exact Hcfg|].
  split; [exact Hp|]. split; [exact S|].
  apply contrib_at_rd_acct in Hc. eapply rd_contrib_canonical; eassumption.
Qed.

(* ==================================================================================================================
   INDEX of Lemmas_C16h.v
   1  kvalid l, table_ok l;  recipients_sum_ok_spec, recipients_new_k_spec (accepted iff kvalid), kvalid_recipients_valid
      (= Recipients.recipients_valid under any key numbering with enc k = 0 <-> k = default_key)
   2  contrib_of / contrib_at / same_contribs; <primitive>_csame, write_data_cchar, try_initialize_cchar, rd_zc_*_cnone / _csome
   3  cchain_same; rd_<name>_csame for the 19 processors that never touch a contributor record
   4  fresh_contrib, cstep ix ms W k o o' (the labelled step relation), rd_set_rewards_manager_cstep,
      rd_configure_contributor_cstep, rd_initialize_contributor_cstep, rd_process_cstep
   5  pp_process_csame, sw_process_csame, withdraw_sol_cpi_csame
   6  rd_frame d (= mentions, rd_frame_mentions), cstepD, cpi_metas_signer (a wrapper cannot add signers), exec_data_cstep
   7  B1: all_tables_ok; exec_data_tables, exec_ixs_tables, all_tables_ok_tx / _op / _run / _initial, stored_table_empty_or_valid
   8  B2, transactions: effective_signer, cstepT, tx_instr_cstep, exec_ixs_first_change, tx_signer_wallet, tx_contrib_change,
      tx_contrib_created, tx_recipients_changed_only_by, tx_blocked_changed_only_by, tx_manager_changed_only_by,
      tx_service_immutable, tx_change_needs_manager_signature, tx_single_cstep
   9  examples: kvalid_nonvacuous, configure_recipients_accepted / _refused, set_manager_rules, tx_contrib_change_nonvacuous,
      all_tables_ok_run_nonvacuous
   10 B2, one instruction: contrib_persists, recipients_changed_only_by, blocked_changed_only_by, manager_changed_only_by,
      contrib_created_only_by
   11 tx_single_manager_change_canonical (under typed_canonical: the config is KRdConfig, the record is at KRdContrib (cr_service c))
   ================================================================================================================== *)
