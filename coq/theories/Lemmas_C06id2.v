(* C06, last clause, part 2: the identity of Lemmas_C06id.v over transactions, operations and histories; the exact form,
   the journal at its derived address, corollaries, examples and the refutation of the exact form.  Index at the end. *)
From DZ Require Import Base Keys Merkle BurnRate Shares Swap_Ring State World SwapDeq RD Passport Swap Exec
  Lemmas_Merkle Lemmas_RdGuards Lemmas_Canon Lemmas_RdSpecs5 Lemmas_Hist Lemmas_Hist2 Lemmas_Hist3 Lemmas_C06id.

(* ------------------------------------------------------------------------------------------------------------------ *)
(* 1. the bundle is closed under quiet steps, the end-of-transaction purge and every revenue-distribution processor    *)

Lemma Inv_C06id_quiet W W' : quiet W W' -> Inv_C06id W -> Inv_C06id W'.
Proof.
  intros Q (H6 & H11 & HS & HI). destruct (NS_inv _ _ (NS_quiet _ _ Q) HS HI) as (HS' & HI').
  split; [eapply Inv06_quiet; eassumption|]. split; [eapply Inv11_quiet; eassumption|]. split; assumption.
Qed.

(* no summed account can be purged: journals hold rent + tracked balance, rewards-final distributions rent + relay fees,
   the other distributions hold lamports by InvS *)
Lemma purge_R W k : Inv06 W -> Inv11 W -> InvS W -> R (get W k) (get (purge W) k).
Proof.
  intros H6 H11 HS. rewrite get_purge. destruct (N.eqb_spec (lamports (get W k)) 0) as [Ez|_]; [|apply R_refl].
  assert (Z : fC (get W k) = 0 /\ fJ (get W k) = 0 /\ fS (get W k) = 0).
  { destruct (classic_tk (get W k)) as [[Ho Ht]|Hn]; [|apply f_not_tk; exact Hn].
    pose proof (H6 k Ho) as G6. pose proof (H11 k Ho) as G11. pose proof (HS k Ho) as GS.
    unfold fC, fJ, fS. destruct (rdb (get W k)); [|auto].
    destruct (data (get W k)) as [| |j|d t| | | | | | | | | |] eqn:Hd; try discriminate Ht; auto; exfalso.
    - unfold rent in G6. lia.
    - destruct G11 as (_ & _ & _ & _ & Gc). destruct GS as (_ & Gl).
      destruct (d_rewards_final d) eqn:Ef; [specialize (Gc eq_refl); unfold covered, rent in Gc; lia|specialize (Gl eq_refl); lia]. }
  destruct Z as (A & B & C). unfold R. rewrite A, B, C. repeat split; reflexivity.
Qed.
Lemma Inv_C06id_purge W : Inv_C06id W -> Inv_C06id (purge W).
Proof.
  intros (H6 & H11 & HS & HI). destruct (NS_inv W (purge W) (fun k => purge_R W k H6 H11 HS) HS HI) as (HS' & HI').
  split; [apply Inv06_purge; exact H6|]. split; [apply Inv11_purge; exact H11|]. split; assumption.
Qed.

Theorem rd_process_C06id cx W ix W' : cx_prog cx = KRd -> rd_ok11 ix -> rd_process cx W ix = Ok W' -> Inv_C06id W -> Inv_C06id W'.
Proof.
  intros Hp Hok H (H6 & H11 & HS & HI).
  pose proof (rd_process_06 cx W ix W' Hp I H H6) as H6'. pose proof (rd_process_11 cx W ix W' Hp Hok H H11) as H11'.
  split; [exact H6'|]. split; [exact H11'|]. clear H6' H11'.
  destruct ix; cbn [rd_process] in H.
  - eapply NS_inv; [eapply rd_initialize_program_NS; exact H|assumption|assumption].
  - eapply NS_inv; [eapply rd_migrate_NS; exact H|assumption|assumption].
  - eapply NS_inv; [eapply rd_set_admin_NS; exact H|assumption|assumption].
  - eapply NS_inv; [eapply rd_configure_program_NS; exact H|assumption|assumption].
  - eapply NS_inv; [eapply rd_initialize_journal_NS; exact H|assumption|assumption].
  - eapply NS_inv; [eapply rd_initialize_distribution_NS; exact H|assumption|assumption].
  - eapply NS_inv; [eapply rd_configure_debt_NS; eassumption|assumption|assumption].
  - eapply NS_inv; [eapply rd_finalize_debt_NS; exact H|assumption|assumption].
  - eapply NS_inv; [eapply rd_configure_rewards_NS; exact H|assumption|assumption].
  - eapply NS_inv; [eapply rd_finalize_rewards_NS; exact H|assumption|assumption].
  - eapply NS_inv; [eapply rd_distribute_rewards_NS; eassumption|assumption|assumption].
  - eapply NS_inv; [apply NS_quiet; eapply rd_initialize_contributor_quiet; exact H|assumption|assumption].
  - eapply NS_inv; [apply NS_quiet; eapply rd_set_rewards_manager_quiet; exact H|assumption|assumption].
  - eapply NS_inv; [apply NS_quiet; eapply rd_configure_contributor_quiet; exact H|assumption|assumption].
  - eapply NS_inv; [apply NS_quiet; eapply rd_verify_root_quiet; exact H|assumption|assumption].
  - eapply NS_inv; [apply NS_quiet; eapply rd_initialize_deposit_quiet; exact H|assumption|assumption].
  - eapply rd_pay_debt_id; eassumption.
  - eapply NS_inv; [eapply rd_enable_write_off_NS; exact H|assumption|assumption].
  - eapply NS_inv; [eapply rd_write_off_NS; exact H|assumption|assumption].
  - eapply NS_inv; [eapply rd_initialize_swap_destination_NS; exact H|assumption|assumption].
  - eapply rd_sweep_id; eassumption.
  - eapply rd_withdraw_sol_id; eassumption.
Qed.

(* ------------------------------------------------------------------------------------------------------------------ *)
(* 2. every instruction, transaction, operation, history                                                              *)

Theorem inv_C06id_data d prog ms h sib W W' : ix_ok11 d -> exec_data prog d ms h sib W = Ok W' -> Inv_C06id W -> Inv_C06id W'.
Proof. apply (exec_data_inv Inv_C06id rd_ok11 Inv_C06id_quiet rd_process_C06id (fun _ => I)). Qed.
(* EVERY transaction (any programs, any signers, any account lists) whose relay-fee / contributor-count arguments are u32 *)
Theorem inv_C06id_tx W t W' ok : Inv_C06id W -> tx_ok11 t -> exec_tx W t = (W', ok) -> Inv_C06id W'.
Proof.
  intros HI Hok H.
  exact (exec_tx_inv Inv_C06id rd_ok11 Inv_C06id_quiet rd_process_C06id (fun _ => I) Inv_C06id_purge W t W' ok Hok H HI).
Qed.
Theorem inv_C06id_op W o :
  honest_op o -> op_ok11 o -> (forall p o_, o = OCreateAta p o_ -> ~ tk (get W p)) -> Inv_C06id W -> Inv_C06id (fst (exec_op W o)).
Proof. apply (exec_op_inv Inv_C06id rd_ok11 Inv_C06id_quiet rd_process_C06id (fun _ => I) Inv_C06id_purge). Qed.
Theorem inv_C06id_history ops W :
  Forall honest_op ops -> Forall wallet_pays ops -> Forall op_ok11 ops -> typed_canonical W -> Inv_C06id W ->
  Inv_C06id (fold_left (fun W o => fst (exec_op W o)) ops W).
Proof. apply (history_inv Inv_C06id rd_ok11 Inv_C06id_quiet rd_process_C06id (fun _ => I) Inv_C06id_purge). Qed.

(* initial worlds: the empty world, and any world in which no revenue-distribution account holds data *)
Lemma tot_zero f W : f empty_acct = 0 -> (forall k, f (get W k) = 0) -> tot f W = 0.
Proof. intros H0 H. rewrite (tot_on f W []); [reflexivity|exact H0|constructor|]. intros k Hk. specialize (H k). contradiction. Qed.
Theorem inv_C06id_init :
  Inv_C06id world0 /\ forall W, (forall k, owner (get W k) = KRd -> data (get W k) = DEmpty) -> Inv_C06id W.
Proof.
  assert (G : forall W, (forall k, owner (get W k) = KRd -> data (get W k) = DEmpty) -> Inv_C06id W).
  { intros W H.
    assert (Z : forall k, fC (get W k) = 0 /\ fJ (get W k) = 0 /\ fS (get W k) = 0).
    { intros k. apply f_not_tk. intros [Ho Ht]. rewrite (H k Ho) in Ht. discriminate Ht. }
    split; [apply Inv06_C06; apply (proj2 inv_C06_init); exact H|]. split; [apply (proj2 inv_C11_init); exact H|]. split.
    - intros k Ho. rewrite (H k Ho). exact I.
    - unfold Id_mod, paid_in, journal_sol, swept_debt. rewrite !tot_zero; try reflexivity; intros k; apply Z. }
  split; [|exact G]. apply G. intros k. rewrite get_world0. intros Ho. discriminate Ho.
Qed.
Corollary C06id_reachable ops :
  Forall honest_op ops -> Forall wallet_pays ops -> Forall op_ok11 ops ->
  Inv_C06id (fold_left (fun W o => fst (exec_op W o)) ops world0).
Proof. intros. apply inv_C06id_history; try assumption; [apply typed_canonical_world0|exact (proj1 inv_C06id_init)]. Qed.

(* from any fixture world in which no revenue-distribution / passport account holds data yet (Lemmas_Canon.untyped_world) *)
Corollary C06id_from_untyped ops W0 : untyped_world W0 ->
  Forall honest_op ops -> Forall wallet_pays ops -> Forall op_ok11 ops ->
  Inv_C06id (fold_left (fun W o => fst (exec_op W o)) ops W0).
Proof.
  intros U Hh Hw Ha. apply inv_C06id_history; try assumption; [apply typed_canonical_untyped; exact U|].
  apply (proj2 inv_C06id_init). intros k Ho. apply U. left. exact Ho.
Qed.

(* ------------------------------------------------------------------------------------------------------------------ *)
(* 3. the exact identity, the journal at its derived address, corollaries                                             *)

(* modulo 2^64 is all that can hold in general (section 5); the identity is exact whenever neither side reached 2^64 *)
Theorem Id_exact_of_mod W : Id_mod W -> paid_in W < two64 -> journal_sol W + swept_debt W < two64 -> Id_exact W.
Proof. unfold Id_mod, Id_exact. intros H A B. rewrite !N.mod_small in H by assumption. exact H. Qed.
Theorem Id_mod_of_exact W : Id_exact W -> Id_mod W.
Proof. unfold Id_mod, Id_exact. intros ->. reflexivity. Qed.

(* decidable forms, for monitors and literal worlds *)
Definition Id_exactb (W : world) : bool := paid_in W =? journal_sol W + swept_debt W.
Definition Id_modb (W : world) : bool := paid_in W mod two64 =? (journal_sol W + swept_debt W) mod two64.
Lemma Id_exactb_spec W : Id_exactb W = true <-> Id_exact W.
Proof. unfold Id_exactb, Id_exact. apply N.eqb_eq. Qed.
Lemma Id_modb_spec W : Id_modb W = true <-> Id_mod W.
Proof. unfold Id_modb, Id_mod. apply N.eqb_eq. Qed.

(* with canonical addresses (Lemmas_Canon: kept by every transaction and honest operation) the only journal is the one
   at KRdJournal; before it exists both balances read 0 *)
Definition journal_at (W : world) : journal :=
  if rdb (get W KRdJournal) then match data (get W KRdJournal) with DJournal j => j | _ => journal_default end else journal_default.
Lemma journal_sol_canonical W : typed_canonical W ->
  journal_sol W = j_total_sol (journal_at W) + j_swapped_sol (journal_at W).
Proof.
  intros HT. unfold journal_sol. rewrite (tot_on fJ W [KRdJournal]); [|reflexivity|constructor; [intros []|constructor]|].
  - cbn [map sumN]. unfold fJ, journal_at. destruct (rdb (get W KRdJournal)); [|reflexivity].
    destruct (data (get W KRdJournal)); cbn; lia.
  - intros k Hk. left. apply HT. unfold canon_key_of. unfold fJ, rdb in Hk.
    destruct (key_eqb (owner (get W k)) KRd); [|contradiction]. destruct (data (get W k)); try contradiction. reflexivity.
Qed.

(* likewise the distributions are the accounts KRdDist e: the two distribution sums are sums over any duplicate-free list
   of epochs that contains every existing distribution (e.g. the epochs below the config's counter, Lemmas_C15b) *)
Lemma dist_sum_by_epoch f W es : typed_canonical W -> f empty_acct = 0 ->
  (forall a, f a <> 0 -> owner a = KRd /\ exists d t, data a = DDist d t) ->
  NoDup es -> (forall e, f (get W (KRdDist e)) <> 0 -> In e es) ->
  tot f W = sumN (map (fun e => f (get W (KRdDist e))) es).
Proof.
  intros HT H0 Hf Nes Hc. rewrite (tot_on f W (map KRdDist es)); [rewrite map_map; reflexivity|exact H0| |].
  - apply FinFun.Injective_map_NoDup; [|exact Nes]. intros a b E. injection E as E. exact E.
  - intros k Hk. destruct (Hf _ Hk) as (Ho & d & t & Hd).
    assert (E : KRdDist (d_epoch d) = k).
    { apply HT. unfold canon_key_of. rewrite Ho, Hd. reflexivity. }
    subst k. apply in_map. apply Hc. exact Hk.
Qed.
Lemma fC_dist_only a : fC a <> 0 -> owner a = KRd /\ exists d t, data a = DDist d t.
Proof.
  unfold fC. destruct (rdb a) eqn:E; [|intros H; contradiction]. apply rdb_true in E.
  destruct (data a); try (intros H; contradiction). eauto.
Qed.
Lemma fS_dist_only a : fS a <> 0 -> owner a = KRd /\ exists d t, data a = DDist d t.
Proof.
  unfold fS. destruct (rdb a) eqn:E; [|intros H; contradiction]. apply rdb_true in E.
  destruct (data a); try (intros H; contradiction). eauto.
Qed.
Theorem paid_in_by_epoch W es : typed_canonical W -> NoDup es -> (forall e, fC (get W (KRdDist e)) <> 0 -> In e es) ->
  paid_in W = sumN (map (fun e => fC (get W (KRdDist e))) es).
Proof. intros HT. apply dist_sum_by_epoch; [exact HT|reflexivity|exact fC_dist_only]. Qed.
Theorem swept_debt_by_epoch W es : typed_canonical W -> NoDup es -> (forall e, fS (get W (KRdDist e)) <> 0 -> In e es) ->
  swept_debt W = sumN (map (fun e => fS (get W (KRdDist e))) es).
Proof. intros HT. apply dist_sum_by_epoch; [exact HT|reflexivity|exact fS_dist_only]. Qed.

(* THE PROPERTY, on any world satisfying the invariant (hence on every reachable world, section 2):
   total paid in by validators = tracked balance + swapped pool + collectible debt of the swept distributions *)
Theorem C06_identity_mod W : Inv_C06id W -> typed_canonical W ->
  paid_in W mod two64 = (j_total_sol (journal_at W) + j_swapped_sol (journal_at W) + swept_debt W) mod two64.
Proof. intros (_ & _ & _ & HI) HT. rewrite <- journal_sol_canonical by exact HT. exact HI. Qed.
Theorem C06_identity W : Inv_C06id W -> typed_canonical W ->
  paid_in W < two64 -> j_total_sol (journal_at W) + j_swapped_sol (journal_at W) + swept_debt W < two64 ->
  paid_in W = j_total_sol (journal_at W) + j_swapped_sol (journal_at W) + swept_debt W.
Proof.
  intros (_ & _ & _ & HI) HT A B. rewrite <- journal_sol_canonical in * by exact HT. apply Id_exact_of_mod; assumption.
Qed.
(* in plain words: what sits in the journal (tracked or waiting in the swapped pool) never exceeds what validators paid in,
   and neither does the collectible debt of the swept distributions *)
Corollary pool_and_balance_le_paid_in W : Inv_C06id W -> typed_canonical W ->
  paid_in W < two64 -> j_total_sol (journal_at W) + j_swapped_sol (journal_at W) + swept_debt W < two64 ->
  j_total_sol (journal_at W) + j_swapped_sol (journal_at W) <= paid_in W /\ swept_debt W <= paid_in W.
Proof. intros HI HT A B. pose proof (C06_identity W HI HT A B). lia. Qed.
(* nothing paid in: nothing tracked, nothing in the pool, nothing swept with debt (when the right side is in range) *)
Corollary nothing_paid_nothing_held W : Inv_C06id W -> typed_canonical W -> paid_in W = 0 ->
  j_total_sol (journal_at W) + j_swapped_sol (journal_at W) + swept_debt W < two64 ->
  j_total_sol (journal_at W) = 0 /\ j_swapped_sol (journal_at W) = 0 /\ swept_debt W = 0.
Proof. intros HI HT Z B. assert (A : paid_in W < two64) by (rewrite Z; reflexivity). pose proof (C06_identity W HI HT A B). lia. Qed.

(* one transaction: exactness is kept as long as neither side leaves the u64 range *)
Theorem C06_identity_tx W t W' ok : Inv_C06id W -> tx_ok11 t -> exec_tx W t = (W', ok) ->
  paid_in W' < two64 -> journal_sol W' + swept_debt W' < two64 -> Id_exact W'.
Proof. intros HI Hok H A B. destruct (inv_C06id_tx _ _ _ _ HI Hok H) as (_ & _ & _ & HI'). apply Id_exact_of_mod; assumption. Qed.
(* every history of honest operations from the empty world *)
Theorem C06_identity_reachable ops : let W := fold_left (fun W o => fst (exec_op W o)) ops world0 in
  Forall honest_op ops -> Forall wallet_pays ops -> Forall op_ok11 ops ->
  paid_in W mod two64 = (j_total_sol (journal_at W) + j_swapped_sol (journal_at W) + swept_debt W) mod two64 /\
  (paid_in W < two64 -> j_total_sol (journal_at W) + j_swapped_sol (journal_at W) + swept_debt W < two64 ->
   paid_in W = j_total_sol (journal_at W) + j_swapped_sol (journal_at W) + swept_debt W).
Proof.
  intros W Hh Hw Ha. pose proof (C06id_reachable ops Hh Hw Ha) as HI.
  assert (HT : typed_canonical W) by (apply typed_canonical_history; [exact Hh|apply typed_canonical_world0]).
  split; [apply C06_identity_mod; assumption|apply C06_identity; assumption].
Qed.

(* the same from any start world that satisfies the invariant and has canonical addresses *)
Theorem C06_identity_history ops W0 : let W := fold_left (fun W o => fst (exec_op W o)) ops W0 in
  Forall honest_op ops -> Forall wallet_pays ops -> Forall op_ok11 ops -> typed_canonical W0 -> Inv_C06id W0 ->
  Inv_C06id W /\ typed_canonical W /\
  paid_in W mod two64 = (j_total_sol (journal_at W) + j_swapped_sol (journal_at W) + swept_debt W) mod two64 /\
  (paid_in W < two64 -> j_total_sol (journal_at W) + j_swapped_sol (journal_at W) + swept_debt W < two64 ->
   paid_in W = j_total_sol (journal_at W) + j_swapped_sol (journal_at W) + swept_debt W).
Proof.
  intros W Hh Hw Ha HT0 HI0. pose proof (inv_C06id_history ops W0 Hh Hw Ha HT0 HI0) as HI.
  assert (HT : typed_canonical W) by (apply typed_canonical_history; assumption).
  split; [exact HI|]. split; [exact HT|]. split; [apply C06_identity_mod; assumption|apply C06_identity; assumption].
Qed.

(* ------------------------------------------------------------------------------------------------------------------ *)
(* 4. example: pay, buy through the mock swap program, sweep                                                          *)

Module Ex06id.
Import CanonEx.
Definition swi (d : sw_ix) (ms : list meta) : instr := {| i_prog := KSwapMock; i_data := IxSwap d; i_metas := ms |}.
Definition sysi (d : ixdata) (ms : list meta) : instr := {| i_prog := KSystem; i_data := d; i_metas := ms |}.
Definition rewardsI : list leafdata := [LReward (KUser 60) 1000000000 0].
Definition fillsK : key := KUser 200.
(* Lemmas_Canon's bootstrap, then: the mock swap program configured, the swap destination and the fills registry created *)
Definition ops_setup : list op := ex_ops ++ [
  otx [KUser 1] [rdi (RConfigureProgram (RSSwapProgram KSwapMock)) m_cfg;
                 rdi (RConfigureProgram (RSRewardsAccountant (KUser 3))) m_cfg;
                 rdi (RConfigureProgram (RSMinEpochs 1)) m_cfg];
  otx [KUser 100] [rdi RInitializeSwapDestination
     [wr KRdConfig; sw (KUser 100); ro KRdSwapAuth; wr (KTok2z KRdSwapAuth); ro KMint; ro KToken; ro KSystem]];
  otx [KUser 100; KUser 200] [sysi (IxSysCreate (rent LEN_FILLS) LEN_FILLS KSwapMock) [sw (KUser 100); sw fillsK];
                              swi SInitializeFillsRegistry [wr fillsK]];
  OSetClock 1000 ].
(* the debt of epoch 0 (one validator, 500 lamports) configured, finalized and paid out of the validator's deposit *)
Definition debtsI : list leafdata := [LDebt (KUser 50) 500].
Definition ops_pay : list op := [
  otx [KUser 2] [rdi (RConfigureDebt 1 500 (tree_root PRE_DEBT debtsI)) [ro KRdConfig; sg (KUser 2); wr (KRdDist 0)]];
  otx [KUser 2; KUser 100] [rdi RFinalizeDebt [ro KRdConfig; sg (KUser 2); wr (KRdDist 0); sw (KUser 100); ro KSystem]];
  otx [KUser 100] [sysi (IxSysTransfer 700) [sw (KUser 100); wr (KRdDeposit (KUser 50))]];
  otx [KUser 100] [rdi (RPayDebt 500 (proof_for PRE_DEBT debtsI 0))
                       [ro KRdConfig; wr (KRdDist 0); wr (KRdDeposit (KUser 50)); wr KRdJournal]] ].
(* a buyer gives 50 2Z for the 500 lamports (mock swap program: BuySol = TransferChecked + WithdrawSol CPI) *)
Definition ops_buy : list op := [
  otx [KUser 70] [swi (SBuySol 50 500)
     [wr fillsK; wr (KAta (KUser 70) KMint); ro KMint; wr (KTok2z KRdSwapAuth); sg (KUser 70);
      ro KRdConfig; ro (KWithdrawAuth KSwapMock); wr KRdJournal; wr (KUser 100); ro KToken; ro KRd]] ].
(* rewards configured and finalized, then the sweep of epoch 0 (DequeueFills CPI into the mock swap program) *)
Definition ops_sweep : list op := [
  otx [KUser 3] [rdi (RConfigureRewards 1 (tree_root PRE_REWARD rewardsI)) [ro KRdConfig; sg (KUser 3); wr (KRdDist 0)]];
  otx [KUser 100] [rdi RFinalizeRewards [ro KRdConfig; wr (KRdDist 0); sw (KUser 100); ro KSystem]];
  otx [KUser 100] [rdi RSweep
     [ro KRdConfig; wr (KRdDist 0); wr KRdJournal; ro KSwapCfg; ro KSwapState; wr fillsK; ro KSwapMock;
      wr (KTok2z (KRdDist 0)); ro KRdSwapAuth; wr (KTok2z KRdSwapAuth); ro KToken]] ].
Definition W_paid : world := run_ops ex_fix (ops_setup ++ ops_pay).
Definition W_bought : world := run_ops ex_fix (ops_setup ++ ops_pay ++ ops_buy).
Definition W_swept : world := run_ops ex_fix (ops_setup ++ ops_pay ++ ops_buy ++ ops_sweep).
Definition sides (W : world) : N * (N * N * N) :=
  (paid_in W, (j_total_sol (journal_at W), j_swapped_sol (journal_at W), swept_debt W)).
End Ex06id.
Import CanonEx Ex06id.

(* boolean checks of the side conditions of a literal history (evaluated by vm_compute) *)
Fixpoint ix_ok11b (d : ixdata) : bool :=
  match d with
  | IxRd (RConfigureProgram (RSRelayLamports n)) => n <? two32
  | IxRd (RConfigureRewards k _) => k <? two32
  | IxRogueCpi inner => ix_ok11b inner
  | _ => true
  end.
Lemma ix_ok11b_spec d : ix_ok11b d = true -> ix_ok11 d.
Proof.
  unfold ix_ok11. induction d as [i|i|i|amt|lam space o|amt|amt dec|amt|inner IH|z sol|]; cbn [ix_ok11b ix_ok]; try (intros _; exact I); [|exact IH].
  destruct i as [| | |s| | | | | | | | | | | | | | | | | |]; cbn [rd_ok11]; try (intros _; exact I).
  - destruct s; try (intros _; exact I). apply N.ltb_lt.
  - apply N.ltb_lt.
Qed.
Definition op_sideb (o : op) : bool :=
  honest_opb o &&
  match o with OCreateAta (KUser _) _ => true | OCreateAta _ _ => false | _ => true end &&
  match o with OTx t => forallb (fun i => ix_ok11b (i_data i)) (tx_ixs t) | _ => true end.
Lemma op_sideb_spec ops : forallb op_sideb ops = true ->
  Forall honest_op ops /\ Forall wallet_pays ops /\ Forall op_ok11 ops.
Proof.
  intros H. rewrite forallb_forall in H. repeat split; apply Forall_forall; intros o Ho; specialize (H o Ho);
    unfold op_sideb in H; apply andb_true_iff in H as (H & H3); apply andb_true_iff in H as (H1 & H2).
  - apply honest_opb_spec. exact H1.
  - destruct o as [| | | | |p o_]; try exact I. destruct p; try discriminate H2. cbn. eauto.
  - destruct o as [t| | | | |]; try exact I. cbn. unfold tx_ok. apply Forall_forall. intros i Hi.
    rewrite forallb_forall in H3. apply ix_ok11b_spec. apply H3. exact Hi.
Qed.
Lemma ops06id_side : let ops := ops_setup ++ ops_pay ++ ops_buy ++ ops_sweep in
  Forall honest_op ops /\ Forall wallet_pays ops /\ Forall op_ok11 ops.
Proof. cbv zeta. apply op_sideb_spec. vm_compute. reflexivity. Qed.
Lemma Inv_C06id_from_fixture ops : Forall honest_op ops -> Forall wallet_pays ops -> Forall op_ok11 ops ->
  Inv_C06id (run_ops ex_fix ops) /\ typed_canonical (run_ops ex_fix ops).
Proof.
  intros Hh Hw Ha. split.
  - apply inv_C06id_history; try assumption; [apply typed_canonical_untyped; exact ex_fix_untyped|].
    apply (proj2 inv_C06id_init). intros k Ho. apply ex_fix_untyped. left. exact Ho.
  - apply typed_canonical_history; [exact Hh|apply typed_canonical_untyped; exact ex_fix_untyped].
Qed.

Lemma W_swept_inv : Inv_C06id W_swept /\ typed_canonical W_swept.
Proof. destruct ops06id_side as (Hh & Hw & Ha). exact (Inv_C06id_from_fixture _ Hh Hw Ha). Qed.

(* a literal history in which all three terms of the right side are exercised: after the payment the 500 lamports are in
   the tracked balance, after the purchase in the swapped pool, after the sweep they are the collectible debt of the
   swept distribution; the left side is 500 throughout.  The invariant holds by the history theorem, the exact identity
   by C06_identity (its range hypotheses are satisfied), and the figures are confirmed by computation. *)
Example C06_identity_nonvacuous :
  all_ok ex_fix (ops_setup ++ ops_pay ++ ops_buy ++ ops_sweep) = true /\
  Inv_C06id W_swept /\ typed_canonical W_swept /\
  sides W_paid = (500, (500, 0, 0)) /\ sides W_bought = (500, (0, 500, 0)) /\ sides W_swept = (500, (0, 0, 500)) /\
  paid_in W_swept = j_total_sol (journal_at W_swept) + j_swapped_sol (journal_at W_swept) + swept_debt W_swept.
Proof.
  destruct W_swept_inv as (HI & HT).
  split; [vm_compute; reflexivity|]. split; [exact HI|]. split; [exact HT|]. split; [vm_compute; reflexivity|].
  split; [vm_compute; reflexivity|]. split; [vm_compute; reflexivity|].
  apply C06_identity; [exact HI|exact HT|vm_compute; reflexivity|vm_compute; reflexivity].
Qed.

(* ------------------------------------------------------------------------------------------------------------------ *)
(* 5. the exact identity is REFUTED: d_collected_sol is a wrapping u64                                                *)

(* The processors advance d_collected_sol, j_total_sol and j_swapped_sol with wrapping u64 additions (RD.v: wadd64; the
   deployed build has overflow checks off).  The tracked balance is bounded by the journal's lamports (Inv_C06) and is
   emptied by every purchase, but d_collected_sol only ever grows: the same lamports can be paid in, bought back and paid
   in again.  Witness (every argument a u64, every balance and even the sum of all balances below 2^64 throughout): a
   distribution with two debt leaves of 2^63 lamports; the first is paid (collected = 2^63, tracked = 2^63), the SOL is
   bought through the mock swap program (tracked = 0, pool = 2^63) and the buyer's proceeds fund the second payment:
   collected wraps to 0 while tracked = pool = 2^63.  The invariant (identity modulo 2^64) still holds. *)
Module Ex06idW.
Import CanonEx Ex06id.
Definition big : N := 9223372036854775808.      (* 2^63 *)
Definition debtsW : list leafdata := [LDebt (KUser 50) big; LDebt (KUser 50) big].
Definition fund_big : op := otx [KUser 100] [sysi (IxSysTransfer big) [sw (KUser 100); wr (KRdDeposit (KUser 50))]].
Definition pay_big (i : N) : op :=
  otx [KUser 100] [rdi (RPayDebt big (proof_for PRE_DEBT debtsW i))
                       [ro KRdConfig; wr (KRdDist 0); wr (KRdDeposit (KUser 50)); wr KRdJournal]].
Definition ops_wrap_pre : list op := ops_setup ++ [
  OAirdrop (KUser 100) big;
  otx [KUser 2] [rdi (RConfigureDebt 2 u64_max (tree_root PRE_DEBT debtsW)) [ro KRdConfig; sg (KUser 2); wr (KRdDist 0)]];
  otx [KUser 2; KUser 100] [rdi RFinalizeDebt [ro KRdConfig; sg (KUser 2); wr (KRdDist 0); sw (KUser 100); ro KSystem]];
  fund_big; pay_big 0;
  otx [KUser 70] [swi (SBuySol 50 big)
     [wr fillsK; wr (KAta (KUser 70) KMint); ro KMint; wr (KTok2z KRdSwapAuth); sg (KUser 70);
      ro KRdConfig; ro (KWithdrawAuth KSwapMock); wr KRdJournal; wr (KUser 100); ro KToken; ro KRd]];
  fund_big ].
Definition W_pre : world := run_ops ex_fix ops_wrap_pre.
Definition W_wrapped : world := run_ops ex_fix (ops_wrap_pre ++ [pay_big 1]).
Definition all_lamports (W : world) : N := tot lamports W.
End Ex06idW.
Import Ex06idW.

Lemma ops_wrap_side : let ops := ops_wrap_pre ++ [pay_big 1] in
  Forall honest_op ops /\ Forall wallet_pays ops /\ Forall op_ok11 ops.
Proof. cbv zeta. apply op_sideb_spec. vm_compute. reflexivity. Qed.
Lemma W_wrapped_inv : Inv_C06id W_wrapped /\ typed_canonical W_wrapped.
Proof. destruct ops_wrap_side as (Hh & Hw & Ha). exact (Inv_C06id_from_fixture _ Hh Hw Ha). Qed.

Example C06_exact_identity_refuted :
  (* an honest history: every operation succeeds, no forged account, wallets pay, u32 arguments *)
  all_ok ex_fix (ops_wrap_pre ++ [pay_big 1]) = true /\
  (Forall honest_op (ops_wrap_pre ++ [pay_big 1]) /\ Forall wallet_pays (ops_wrap_pre ++ [pay_big 1]) /\
   Forall op_ok11 (ops_wrap_pre ++ [pay_big 1])) /\
  (* before the last payment the identity is exact *)
  sides W_pre = (big, (0, big, 0)) /\ Id_exact W_pre /\
  (* the last payment is one successful transaction *)
  exec_op W_pre (pay_big 1) = (W_wrapped, true) /\
  (* after it: nothing "paid in", 2^63 tracked and 2^63 in the pool; the invariant and the identity modulo 2^64 hold,
     the exact identity does not; all lamports of the world together stay below 2^64 *)
  Inv_C06id W_wrapped /\ Id_mod W_wrapped /\
  sides W_wrapped = (0, (big, big, 0)) /\ ~ Id_exact W_wrapped /\
  all_lamports W_pre < two64 /\ all_lamports W_wrapped < two64.
Proof.
  destruct W_wrapped_inv as (HI & HT).
  split; [vm_compute; reflexivity|]. split; [exact ops_wrap_side|]. split; [vm_compute; reflexivity|].
  split; [vm_compute; reflexivity|]. split; [vm_compute; reflexivity|]. split; [exact HI|].
  split; [exact (proj2 (proj2 (proj2 HI)))|]. split; [vm_compute; reflexivity|].
  split; [|split; vm_compute; reflexivity].
  unfold Id_exact. intros H. vm_compute in H. discriminate H.
Qed.

(* ==================================================================================================================
   INDEX (Lemmas_C06id.v + Lemmas_C06id2.v, C06 last clause; all closed under the global context)
   sums over a world (Lemmas_C06id.v, section 1)
     wkeys W                  duplicate-free list of the keys bound in the account map (dedup_keys of Exec.v)
     tot f W                  sum of f (get W k) over wkeys W                         (computable: used by vm_compute in the examples)
     tot_on                   f empty_acct = 0 -> NoDup l -> (f (get W k) <> 0 -> In k l) -> tot f W = sum of f (get W k) over l
                              (the sum does not depend on the representation: any duplicate-free cover of the support will do)
     tot_delta                worlds agreeing (through f) outside a NoDup list ks: tot f W' + sum_at f W ks = tot f W + sum_at f W' ks
     dist_sum_by_epoch, paid_in_by_epoch, swept_debt_by_epoch (Lemmas_C06id2.v)   with canonical addresses the distribution sums
                              are sums over any NoDup list of epochs containing every existing distribution
   summands and the invariant (section 2)
     fC a / fJ a / fS a       KRd-owned DDist d: d_collected_sol d / KRd-owned DJournal j: j_total_sol j + j_swapped_sol j /
                              KRd-owned DDist d: sdebt d = if d_swept d then d_total_debt d - d_uncollectible d else 0;   0 otherwise
     paid_in W = tot fC W;  journal_sol W = tot fJ W;  swept_debt W = tot fS W
     Id_exact W               paid_in W = journal_sol W + swept_debt W
     Id_mod W                 paid_in W mod 2^64 = (journal_sol W + swept_debt W) mod 2^64
     goodS a / InvS W         KRd-owned distribution: swept -> rewards-final, and not rewards-final -> lamports <> 0
     Inv_C06id W              Inv06 W (C06 journal cover, Lemmas_Hist3) /\ Inv11 W (C11 distribution cover + lifecycle, Lemmas_Hist2)
                              /\ InvS W /\ Id_mod W
   neutral steps (sections 3-5)
     R a a'                   goodS kept and the three summands equal;  NS W W' := forall k, R (get W k) (get W' k)
     NS_quiet (quiet => NS), NS_tots (the three sums are equal), NS_inv (InvS and Id_mod kept)
     rd_<name>_NS             19 of the 22 processors are neutral (14 lemmas; the other 5 are quiet; configure_debt needs Inv11 + InvS: the debt total can change only
                              before the debt is final, hence before the sweep; distribute_rewards needs InvS; write-off: the target
                              is unswept)
   moving steps (section 6)   Id_step (changes on a key list balance mod 2^64 => Id_mod kept);
     rd_pay_debt_id           collected + amount (wrapping), tracked + amount (wrapping)
     rd_withdraw_sol_id       tracked - amount (checked), pool + amount (wrapping)
     rd_sweep_id              no collectible debt: neutral; else pool - debt (checked), the distribution turns swept with debt
   Lemmas_C06id2.v
     Inv_C06id_quiet, Inv_C06id_purge (no summed account can be purged), rd_process_C06id (rd_ok11 arguments)
     inv_C06id_data / inv_C06id_tx   Inv_C06id W -> tx_ok11 t -> exec_tx W t = (W', ok) -> Inv_C06id W'      (EVERY transaction)
     inv_C06id_op             honest_op o -> op_ok11 o -> (o = OCreateAta p _ -> ~ tk (get W p)) -> Inv_C06id W -> Inv_C06id (fst (exec_op W o))
     inv_C06id_history        Forall honest_op / wallet_pays / op_ok11 ops -> typed_canonical W -> Inv_C06id W -> Inv_C06id (fold_left .. ops W)
     inv_C06id_init           Inv_C06id world0 /\ (no KRd-owned account holds data -> Inv_C06id W);   C06id_reachable (from world0),
                              C06id_from_untyped (from any untyped_world fixture, Lemmas_Canon)
     Id_exactb / Id_modb (+ _spec)   boolean forms of Id_exact / Id_mod
     Id_exact_of_mod          Id_mod W -> paid_in W < 2^64 -> journal_sol W + swept_debt W < 2^64 -> Id_exact W;   Id_mod_of_exact
     journal_at W             the journal at KRdJournal (journal_default, i.e. 0 + 0, if there is none)
     journal_sol_canonical    typed_canonical W -> journal_sol W = j_total_sol (journal_at W) + j_swapped_sol (journal_at W)
     C06_identity_mod         Inv_C06id W -> typed_canonical W -> paid_in W mod 2^64 = (tracked + pool + swept_debt W) mod 2^64
     C06_identity             .. -> paid_in W < 2^64 -> tracked + pool + swept_debt W < 2^64 -> paid_in W = tracked + pool + swept_debt W
     pool_and_balance_le_paid_in, nothing_paid_nothing_held      corollaries in plain words
     C06_identity_tx          one transaction: Id_exact W' whenever both sides of W' are below 2^64
     C06_identity_reachable / C06_identity_history    along every honest history from world0 / from any world with the invariant
     op_sideb, op_sideb_spec  boolean check of honest_op / wallet_pays / op_ok11 for literal histories
     C06_identity_nonvacuous  literal history (pay 500, buy through the mock swap program, sweep): sides = (500 | 500,0,0), (500 | 0,500,0),
                              (500 | 0,0,500); invariant by the history theorem, exact identity by C06_identity
     C06_exact_identity_refuted   honest history, all lamports together < 2^64: two payments of 2^63 into one distribution with a purchase in
                              between wrap d_collected_sol to 0 while tracked = pool = 2^63: Id_exact holds before the last transaction,
                              fails after it; Inv_C06id / Id_mod hold
   ================================================================================================================== *)
