(* mock/swap-sol-2z/src/processor.rs: InitializeFillsRegistry and BuySol (DequeueFills is in SwapDeq.v).
   Executable definitions only. *)
From DZ Require Import Base Keys Merkle BurnRate Shares Swap_Ring State World SwapDeq RD.

Inductive sw_ix := SInitializeFillsRegistry | SBuySol (z sol : N) | SDequeueFills (sol : N).

Definition sw_initialize (cx : ctx) (W : world) : result world :=
  '(m, ms) <- next_any (cx_metas cx) W ;;
  try_initialize cx W (mkey m) LEN_FILLS (DFills ring_init).

Definition MINT_DECIMALS : N := 8.

(* CPI into revenue-distribution's WithdrawSol as issued by a swap program `self` *)
Definition withdraw_sol_cpi (cx : ctx) (W : world) (cfg auth jk dest : key) (sol : N) (sib : sibling) : result world :=
  ms <- cpi_metas cx KRd [mk cfg false false; mk auth true false; mk jk false true; mk dest false true]
                  [KWithdrawAuth (cx_prog cx)] ;;
  rd_withdraw_sol {| cx_prog := KRd; cx_metas := ms; cx_height := cx_height cx + 1; cx_sibling := Some sib |} W sol.

Definition sw_buy_sol (cx : ctx) (W : world) (z sol : N) : result world :=
  '(fk, r, ms) <- sw_zc_fills (cx_metas cx) W ;;
  r' <- of_option (buy r {| sol_in := sol; z_out := z |}) EInvalidAccountData ;;
  W <- write_data cx W fk (DFills r') ;;
  '(src, ms) <- next_any ms W ;;
  '(mint, ms) <- next_any ms W ;;
  '(dst, ms) <- next_any ms W ;;
  '(auth, ms) <- next_any ms W ;;
  W <- tok_transfer_checked cx W (mkey src) (mkey mint) (mkey dst) (mkey auth) z MINT_DECIMALS [] ;;
  '(cfg, ms) <- next_any ms W ;;
  '(wa, ms) <- next_any ms W ;;
  '(jk, ms) <- next_any ms W ;;
  '(dest, ms) <- next_any ms W ;;
  withdraw_sol_cpi cx W (mkey cfg) (mkey wa) (mkey jk) (mkey dest) sol
    {| sb_prog := KToken; sb_kind := SibTransferChecked z;
       sb_accounts := [mkey src; mkey mint; mkey dst; mkey auth] |}.

Definition sw_process (cx : ctx) (W : world) (ix : sw_ix) : result world :=
  match ix with
  | SInitializeFillsRegistry => sw_initialize cx W
  | SBuySol z sol => sw_buy_sol cx W z sol
  | SDequeueFills sol => '(W, _) <- sw_dequeue_fills cx W sol ;; Ok W
  end.
