(* Transactions: instruction dispatch, message-level privileges, atomicity, the rent-state rule, purge; and the
   scenario operations shared by the harness, the model run and the monitors.  Executable definitions only. *)
From DZ Require Import Base Keys Merkle BurnRate Shares Swap_Ring State World SwapDeq RD Passport Swap.

Inductive ixdata :=
| IxPassport (i : pp_ix)
| IxRd (i : rd_ix)
| IxSwap (i : sw_ix)
| IxSysTransfer (amt : N)                          (* accounts: from, to *)
| IxSysCreate (lam space : N) (new_owner : key)     (* accounts: from, to *)
| IxTokTransfer (amt : N)                           (* accounts: src, dst, authority *)
| IxTokTransferChecked (amt dec : N)                (* accounts: src, mint, dst, authority *)
| IxTokBurn (amt : N)                               (* accounts: account, mint, authority *)
| IxRogueCpi (inner : ixdata)                       (* harness-only program: accounts = callee program :: callee accounts;
                                                       re-issues `inner` as a CPI with the flags it sees *)
| IxRogueBuy (z sol : N)                            (* harness-only swap program: transfer_checked + WithdrawSol, no registry;
                                                       accounts: src, mint, dst, authority, rd config, withdraw authority, journal, sol destination *)
| IxNoop.
Record instr := { i_prog : key; i_data : ixdata; i_metas : list meta }.

Definition keys_of (ms : list meta) : list key := map mkey ms.
Definition nthk (ms : list meta) (i : nat) : key := nth i (keys_of ms) default_key.

Definition sibling_of (i : instr) : sibling :=
  {| sb_prog := i_prog i;
     sb_kind := match i_data i with IxTokTransferChecked amt _ => SibTransferChecked amt | _ => SibOther end;
     sb_accounts := keys_of (i_metas i) |}.

(* the runtime's per-instruction check: the lamports of the instruction's accounts sum to the same total before and
   after every instruction frame (InstructionError::UnbalancedInstruction) *)
Fixpoint dedup_keys (l : list key) : list key :=
  match l with [] => [] | k :: tl => if existsb (key_eqb k) tl then dedup_keys tl else k :: dedup_keys tl end.
Definition lamports_sum (W : world) (ks : list key) : N := sumN (map (fun k => lamports (get W k)) ks).
Definition balanced (ms : list meta) (W W' : world) : bool :=
  let ks := dedup_keys (keys_of ms) in lamports_sum W ks =? lamports_sum W' ks.

(* one instruction at stack height `h` with the callee-visible metas `ms` *)
Fixpoint exec_data (prog : key) (d : ixdata) (ms : list meta) (h : N) (sib : option sibling) (W : world) {struct d}
  : result world :=
  let cx := {| cx_prog := prog; cx_metas := ms; cx_height := h; cx_sibling := sib |} in
  W' <- match prog, d with
  | KPassport, IxPassport i => pp_process cx W i
  | KRd, IxRd i => rd_process cx W i
  | KSwapMock, IxSwap i => sw_process cx W i
  | KSystem, IxSysTransfer amt =>
      _ <- require (Nat.leb 2 (length ms)) ENotEnoughAccountKeys ;;
      sys_transfer_core W ms (nthk ms 0) (nthk ms 1) amt
  | KSystem, IxSysCreate lam space o =>
      _ <- require (Nat.leb 2 (length ms)) ENotEnoughAccountKeys ;;
      sys_create_account_core W ms (nthk ms 0) (nthk ms 1) lam space o
  | KToken, IxTokTransfer amt =>
      _ <- require (Nat.leb 3 (length ms)) ENotEnoughAccountKeys ;;
      tok_transfer_core W ms (nthk ms 0) (nthk ms 1) (nthk ms 2) amt None
  | KToken, IxTokTransferChecked amt dec =>
      _ <- require (Nat.leb 4 (length ms)) ENotEnoughAccountKeys ;;
      tok_transfer_core W ms (nthk ms 0) (nthk ms 2) (nthk ms 3) amt (Some (nthk ms 1, dec))
  | KToken, IxTokBurn amt =>
      _ <- require (Nat.leb 3 (length ms)) ENotEnoughAccountKeys ;;
      tok_burn_core W ms (nthk ms 0) (nthk ms 1) (nthk ms 2) amt
  | KRogue _, IxRogueCpi inner =>
      match ms with
      | [] => Err ENotEnoughAccountKeys
      | callee :: rest =>
          ms' <- cpi_metas cx (mkey callee) rest [] ;;
          exec_data (mkey callee) inner ms' (h + 1) None W
      end
  | KRogue _, IxRogueBuy z sol =>
      _ <- require (Nat.leb 8 (length ms)) ENotEnoughAccountKeys ;;
      (* the program the TransferChecked-shaped CPI is sent to is taken from account position 8 (absent = Token) *)
      if Nat.ltb (length ms) 9 || key_eqb (nthk ms 8) KToken then
      W <- tok_transfer_checked cx W (nthk ms 0) (nthk ms 1) (nthk ms 2) (nthk ms 3) z MINT_DECIMALS [] ;;
      withdraw_sol_cpi cx W (nthk ms 4) (nthk ms 5) (nthk ms 6) (nthk ms 7) sol
        {| sb_prog := KToken; sb_kind := SibTransferChecked z; sb_accounts := [nthk ms 0; nthk ms 1; nthk ms 2; nthk ms 3] |}
      else
      match nthk ms 8 with
      | KRogue _ =>
          (* another harness program: accepts anything, moves nothing; only the CPI privilege check remains *)
          _ <- cpi_metas cx (nthk ms 8) [mk (nthk ms 0) false true; mk (nthk ms 1) false false;
                                         mk (nthk ms 2) false true; mk (nthk ms 3) true false] [] ;;
          withdraw_sol_cpi cx W (nthk ms 4) (nthk ms 5) (nthk ms 6) (nthk ms 7) sol
            {| sb_prog := nthk ms 8; sb_kind := SibTransferChecked z;
               sb_accounts := [nthk ms 0; nthk ms 1; nthk ms 2; nthk ms 3] |}
      | _ => Err (ERuntime 9)          (* not an executable program of the model *)
      end
  | _, IxNoop => Ok W
  | _, _ => Err EInvalidInstructionData
  end ;;
  _ <- require (balanced ms W W') (ERuntime 7) ;;
  Ok W'.

(* a transaction: the keys that signed it (fee payer included) and its instructions with the metas as written *)
Record tx := { tx_signers : list key; tx_ixs : list instr }.

(* message-level privileges: signer iff the key signed the transaction; writable iff some instruction asks for it *)
Definition msg_writable (t : tx) (k : key) : bool := existsb (fun i => is_writable (i_metas i) k) (tx_ixs t).
Definition msg_signer (t : tx) (k : key) : bool := existsb (key_eqb k) (tx_signers t).
Definition effective (t : tx) (ms : list meta) : list meta :=
  map (fun m => {| mkey := mkey m; msigner := msg_signer t (mkey m); mwritable := msg_writable t (mkey m) |}) ms.
(* a transaction is well-formed when every meta marked signer did sign (otherwise it cannot even be built) and only
   wallets sign: derived addresses have no private key and the all-zero key (= KSystem) cannot produce a signature *)
Definition tx_wf (t : tx) : bool :=
  forallb (fun i => forallb (fun m => negb (msigner m) || msg_signer t (mkey m)) (i_metas i)) (tx_ixs t) &&
  forallb (fun k => match k with KUser _ => true | _ => false end) (tx_signers t).

Fixpoint exec_ixs (t : tx) (ixs : list instr) (prev : option sibling) (W : world) : result world :=
  match ixs with
  | [] => Ok W
  | i :: tl =>
      W <- exec_data (i_prog i) (i_data i) (effective t (i_metas i)) 1 prev W ;;
      exec_ixs t tl (Some (sibling_of i)) W
  end.

Definition tx_keys (t : tx) : list key := flat_map (fun i => keys_of (i_metas i)) (tx_ixs t).
Definition rent_ok (t : tx) (W W' : world) : bool :=
  forallb (fun k => negb (msg_writable t k) || rent_transition_ok (get W k) (get W' k)) (tx_keys t).

Definition exec_tx (W : world) (t : tx) : world * bool :=
  if negb (tx_wf t) then (W, false) else
  match exec_ixs t (tx_ixs t) None W with
  | Ok W' => if rent_ok t W W' then (purge W', true) else (W, false)
  | Err _ => (W, false)
  end.

(* ---- scenario operations ---- *)
Inductive op :=
| OTx (t : tx)
| OSetClock (ts : N)
| OAirdrop (k : key) (lam : N)                     (* system-owned wallet funded out of thin air *)
| OForge (k : key) (a : acct)                       (* set_account: look-alikes and fixtures *)
| OMintTo (k : key) (amt : N)                       (* test mint authority mints into token account k *)
| OCreateAta (payer owner_ : key).                  (* real ATA program: creates KAta owner KMint funded by payer *)

Definition exec_op (W : world) (o : op) : world * bool :=
  match o with
  | OTx t => exec_tx W t
  | OSetClock ts => (W <| now := ts |>, true)
  | OAirdrop k lam => let a := get W k in (put W k (a <| lamports := lamports a + lam |>), true)
  | OForge k a => (put W k a, true)
  | OMintTo k amt =>
      match as_token W k, as_mint W KMint with
      | Ok t, Ok m =>
          let W := put_token W k (t <| t_amount := t_amount t + amt |>) in
          let a := get W KMint in
          (put W KMint (a <| data := DMint (m <| m_supply := m_supply m + amt |>) |>), true)
      | _, _ => (W, false)
      end
  | OCreateAta payer o_ =>
      let ata := KAta o_ KMint in
      let p := get W payer in
      let a := get W ata in
      if (rent LEN_TOKEN <=? lamports p) && key_eqb (owner a) KSystem && (alen a =? 0) then
        let W := put W payer (p <| lamports := lamports p - (rent LEN_TOKEN - lamports a) |>) in
        (put W ata {| lamports := N.max (lamports a) (rent LEN_TOKEN); owner := KToken; alen := LEN_TOKEN;
                      data := DToken {| t_mint := KMint; t_owner := o_; t_amount := 0 |} |}, true)
      else (W, false)
  end.

Definition world0 : world := {| accts := []; now := 0 |}.
