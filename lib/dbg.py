"""debug helpers: split a history term into its local definitions and its steps"""
def split_history(line):
    i = 0
    defs = []
    while line.startswith("let ", i):
        depth = 0; k = i + 4
        while True:
            c = line[k]
            if c in "[({": depth += 1
            elif c in "])}": depth -= 1
            elif depth == 0 and line.startswith(" in ", k): break
            k += 1
        defs.append(line[i:k + 3]); i = k + 4
    body = line[i:].strip()
    assert body[0] == "[" and body[-1] == "]", body[:80]
    steps = []; depth = 0; cur = []
    for c in body[1:-1]:
        if c in "[({": depth += 1
        elif c in "])}": depth -= 1
        if c == ";" and depth == 0:
            steps.append("".join(cur).strip()); cur = []
        else: cur.append(c)
    if cur: steps.append("".join(cur).strip())
    return defs, steps
