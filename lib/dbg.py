"""debug helpers: split a history term into its steps"""
def split_history(line):
    # strip leading let-definitions
    i = 0
    defs = []
    while line.startswith("let ", i):
        j = line.index(" in ", i)
        # a let body may contain ' in ' only at top level after the closing bracket
        depth = 0; k = i
        while True:
            c = line[k]
            if c in "[(": depth += 1
            elif c in "])": depth -= 1
            if depth == 0 and line.startswith("] in", k): break
            k += 1
        defs.append(line[i:k+4]); i = k + 5
    body = line[i:].strip()
    assert body[0] == "[" and body[-1] == "]"
    steps = []; depth = 0; cur = []
    for c in body[1:-1]:
        if c in "[({": depth += 1
        elif c in "])}": depth -= 1
        if c == ";" and depth == 0:
            steps.append("".join(cur).strip()); cur = []
        else: cur.append(c)
    if cur: steps.append("".join(cur).strip())
    return defs, steps
