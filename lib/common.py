"""Shared machinery of the /verif checks: builds, Coq evaluation, verdicts, evidence."""
import fcntl, hashlib, json, os, re, subprocess, sys, time, glob, shutil

VERIF = os.path.dirname(os.path.dirname(os.path.abspath(__file__)))
REPO = "/repo"
COQ = os.path.join(VERIF, "coq")
HARNESS = os.path.join(VERIF, "harness")
BUILD = os.path.join(VERIF, "build")
DZH = os.path.join(HARNESS, "target", "debug", "dzh")
ENV = dict(os.environ, CARGO_NET_OFFLINE="true", PIP_NO_INDEX="1", GOPROXY="off")
ALLOWED_AXIOMS = set()   # target: every property theorem is closed under the global context

TRUSTED_BASE = [
    "Coq 8.16.1 kernel (coqc, full .vo builds via coq_makefile); vm_compute (cases evaluation, *_refuted witnesses, finite facts); no native_compute",
    "axioms: none (every Print Assumptions must report 'Closed under the global context'; allow-list is empty)",
    "hand-written Gallina model of the modelled Rust (named per property); idealisations listed in DESIGN.md section 9",
    "correspondence harness /verif/harness (Rust): generators, key mapping, account decoders, canonicalisation; the real program crates linked from /repo's working tree with --cfg doublezero_solana_verif",
    "solana-program-test/solana-runtime 3.0.12 as stand-in for a validator, with the vendored patches under harness/vendor (native CPI, return data, stack height, sibling instruction, log routing)",
    "native x86-64 code generation of the same Rust source standing in for SBF, overflow checks off as in the deployed profile",
    "no extraction: the model is executed inside Coq (Eval vm_compute in cases files written by the harness)",
]

def log(*a):
    print(*a, file=sys.stderr, flush=True)

class Lock:
    def __init__(self, name):
        os.makedirs(BUILD, exist_ok=True)
        self.path = os.path.join(BUILD, name + ".lock")
    def __enter__(self):
        self.f = open(self.path, "w")
        fcntl.flock(self.f, fcntl.LOCK_EX)
        return self
    def __exit__(self, *a):
        fcntl.flock(self.f, fcntl.LOCK_UN)
        self.f.close()

def sh(cmd, cwd=None, timeout=3600, env=None, check=False):
    p = subprocess.run(cmd, shell=isinstance(cmd, str), cwd=cwd, env=env or ENV, timeout=timeout,
                       stdout=subprocess.PIPE, stderr=subprocess.STDOUT, text=True)
    if check and p.returncode != 0:
        raise RuntimeError("command failed (%d): %s\n%s" % (p.returncode, cmd, p.stdout[-4000:]))
    return p.returncode, p.stdout

# ---------------------------------------------------------------- builds

def build_harness():
    """cargo build of the harness against /repo's working tree (hooks on). Returns (ok, log)."""
    with Lock("cargo"):
        t = time.time()
        rc, out = sh(["cargo", "build", "--offline"], cwd=HARNESS, timeout=3000)
        log("[build] cargo build rc=%d %.1fs" % (rc, time.time() - t))
        return rc == 0, out

def write_if_changed(path, text):
    try:
        if open(path).read() == text:
            return False
    except FileNotFoundError:
        pass
    with open(path, "w") as f:
        f.write(text)
    return True

def regenerate_constants():
    """Generated.v is rewritten from the crates the harness was just linked against."""
    rc, out = sh([DZH, "dump-constants"], timeout=300)
    if rc != 0:
        raise RuntimeError("dump-constants failed:\n" + out[-3000:])
    changed = write_if_changed(os.path.join(COQ, "theories", "Generated.v"), out)
    return changed

def coq_project():
    base = open(os.path.join(COQ, "_CoqProject.base")).read()
    files = sorted(glob.glob(os.path.join(COQ, "theories", "*.v")))
    text = base + "".join("theories/%s\n" % os.path.basename(f) for f in files)
    if write_if_changed(os.path.join(COQ, "_CoqProject"), text) or not os.path.exists(os.path.join(COQ, "Makefile")):
        sh("coq_makefile -f _CoqProject -o Makefile", cwd=COQ, check=True)

class SharedLock(Lock):
    def __enter__(self):
        self.f = open(self.path, "w")
        fcntl.flock(self.f, fcntl.LOCK_SH)
        return self

def _proof_only(targets):
    return all(t.startswith(("Lemmas_", "Props_")) for t in targets)

def build_coq(targets, timeout=2400):
    """make the given theories/*.vo targets (full .vo build). Returns (ok, log).
    Proof files (Lemmas_*/Props_*) of different properties build concurrently (shared lock + one lock per target) as long
    as no model file needs rebuilding; anything else takes the exclusive lock."""
    os.makedirs(BUILD, exist_ok=True)
    if _proof_only(targets):
        with SharedLock("coq"):
            with Lock("coqproject"):
                coq_project()
            rc, dry = sh(["make", "-n"] + ["theories/%s.vo" % x for x in targets], cwd=COQ, timeout=600)
            stale = [l for l in dry.splitlines() if "COQC" in l or "coqc" in l]
            stale_model = [l for l in stale if not re.search(r"theories/(Lemmas_|Props_)\w+\.v", l)]
            if not stale_model:
                locks = [Lock("coq-" + t) for t in sorted(targets)]
                for l in locks: l.__enter__()
                try:
                    t = time.time()
                    rc, out = sh(["make", "-j8"] + ["theories/%s.vo" % x for x in targets], cwd=COQ, timeout=timeout)
                    log("[build] coq make (shared) %s rc=%d %.1fs" % (" ".join(targets), rc, time.time() - t))
                    return rc == 0, out
                finally:
                    for l in reversed(locks): l.__exit__()
    with Lock("coq"):
        coq_project()
        t = time.time()
        rc, out = sh(["make", "-j16"] + ["theories/%s.vo" % x for x in targets], cwd=COQ, timeout=timeout)
        log("[build] coq make %s rc=%d %.1fs" % (" ".join(targets), rc, time.time() - t))
        return rc == 0, out

FORBIDDEN = re.compile(r"\b(Admitted|admit|Axiom|Axioms|Parameter|Parameters|Conjecture|Admit Obligations|Unset Guard Checking|"
                       r"Unset Positivity Checking|Unset Universe Checking|bypass_check|type-in-type|impredicative-set)\b")

def strip_coq_comments(s):
    out, depth, i = [], 0, 0
    while i < len(s):
        if s.startswith("(*", i): depth += 1; i += 2
        elif s.startswith("*)", i) and depth: depth -= 1; i += 2
        else:
            if depth == 0: out.append(s[i])
            i += 1
    return "".join(out)

def forbidden_tokens():
    """grep of the whole development (comments stripped) for anything that would declare an axiom or weaken the kernel."""
    hits = []
    # the development = every committed file (work in progress of a proof that is not committed yet is not part of it)
    rc, out = sh(["git", "ls-files", "coq/theories"], cwd=VERIF)
    tracked = set(os.path.basename(x) for x in out.split()) if rc == 0 and out.strip() else None
    for f in sorted(glob.glob(os.path.join(COQ, "theories", "*.v"))) + [os.path.join(COQ, "_CoqProject.base")]:
        if tracked is not None and f.endswith(".v") and os.path.basename(f) not in tracked and os.path.basename(f) != "Generated.v":
            continue
        body = strip_coq_comments(open(f).read())
        for m in FORBIDDEN.finditer(body):
            hits.append("%s: %s" % (os.path.basename(f), m.group(0)))
        # Variable / Hypothesis / Context outside a Section
        depth = 0
        for line in body.splitlines():
            s = line.strip()
            if re.match(r"Section\b", s): depth += 1
            elif re.match(r"End\b", s) and depth: depth -= 1
            elif depth == 0 and re.match(r"(Variable|Variables|Hypothesis|Hypotheses|Context)\b", s):
                hits.append("%s: %s outside a Section" % (os.path.basename(f), s.split()[0]))
    return hits

def proof_obligations(pid):
    """Re-compile Props_<pid>.v (after its dependencies) and read its output: one obligation per pinned
    `Check name : stmt.`; each Print Assumptions must be closed (or allow-listed)."""
    props = "Props_%s" % pid
    src = os.path.join(COQ, "theories", props + ".v")
    res = {"obligations": 0, "discharged": 0, "theorems": [], "axioms": [], "errors": [], "log": ""}
    if not os.path.exists(src):
        res["errors"].append("missing " + src); return res
    text = strip_coq_comments(open(src).read())
    thms = re.findall(r"\b(?:Theorem|Lemma|Corollary|Example)\s+(\w+)", text)
    pinned = re.findall(r"\bCheck\s+(\w+)\s*:", text)
    printed = re.findall(r"\bPrint Assumptions\s+(\w+)", text)
    res["theorems"] = thms
    res["obligations"] = len(thms)
    for t in thms:
        if t not in printed: res["errors"].append("no Print Assumptions for " + t)
    with Lock("coq-" + props + "-po"):
        with SharedLock("coq"):
            for ext in (".vo", ".vok", ".vos", ".glob"):
                try: os.remove(os.path.join(COQ, "theories", props + ext))
                except FileNotFoundError: pass
        ok, out = build_coq([props])
        rc = 0 if ok else 1
    res["log"] = out[-6000:]
    if rc != 0:
        m = re.search(r'File "([^"]+)", line (\d+)[^\n]*\n(Error:.*?)(?:\n\n|\Z)', out, re.S)
        res["errors"].append("coq build failed: " + (("%s:%s %s" % (os.path.basename(m.group(1)), m.group(2), " ".join(m.group(3).split())[:400])) if m else out[-800:]))
        return res
    closed = out.count("Closed under the global context")
    ax = re.findall(r"Axioms:\n((?:.+\n?)+?)(?=\n\S|\Z)", out)
    for block in ax:
        for line in block.splitlines():
            name = line.strip().split(" ")[0]
            if name and name not in ALLOWED_AXIOMS and (":" in line):
                res["axioms"].append(name)
    if res["axioms"]:
        res["errors"].append("axioms outside the allow-list: " + ", ".join(sorted(set(res["axioms"]))))
    if closed + len(ax) < len(printed):
        res["errors"].append("Print Assumptions reports missing (%d of %d)" % (closed + len(ax), len(printed)))
    hits = forbidden_tokens()
    if hits:
        res["errors"].append("forbidden tokens: " + "; ".join(hits[:10]))
    if not res["errors"]:
        res["discharged"] = len(thms)
    return res

def coqchk(pid, timeout=3000):
    """Independent re-check of Props_<pid>.vo and everything it depends on (thorough tier). Returns (ok, summary)."""
    t = time.time()
    rc, out = sh(["coqchk", "-o", "-silent", "-Q", "theories", "DZ", "DZ.Props_%s" % pid], cwd=COQ, timeout=timeout)
    summ = out[out.find("CONTEXT SUMMARY"):] if "CONTEXT SUMMARY" in out else out[-1500:]
    flat = " ".join(summ.split())
    ok = (rc == 0 and "Axioms: <none>" in flat and "relying on type-in-type: <none>" in flat
          and "unsafe (co)fixpoints: <none>" in flat and "positivity is assumed: <none>" in flat)
    return ok, {"rc": rc, "wall_s": round(time.time() - t, 1), "summary": flat[:600]}

# ---------------------------------------------------------------- Coq evaluation of cases

def parse_coq_term(s):
    """Parse Coq's printed value (lists, tuples, constructor applications, numbers, strings) into Python:
    list -> list, tuple -> tuple, application -> ('Ctor', args...), number -> int, ident -> str."""
    toks = re.findall(r'"(?:[^"]|"")*"|\{\||\|\}|:=|\[|\]|\(|\)|;|,|[^\s\[\]();,{}|:]+', s)
    pos = [0]
    def peek(): return toks[pos[0]] if pos[0] < len(toks) else None
    def take():
        t = toks[pos[0]]; pos[0] += 1; return t
    def atom():
        t = take()
        if t == "[":
            items = []
            if peek() == "]": take(); return items
            while True:
                items.append(expr())
                t2 = take()
                if t2 == "]": return items
                assert t2 == ";", t2
        if t == "{|":
            rec = {}
            if peek() == "|}": take(); return rec
            while True:
                name = take(); assert take() == ":=", name
                rec[name] = expr()
                t2 = take()
                if t2 == "|}": return rec
                assert t2 == ";", t2
        if t == "(":
            items = [expr()]
            while peek() == ",":
                take(); items.append(expr())
            assert take() == ")"
            return items[0] if len(items) == 1 else tuple(items)
        if t.startswith('"'): return t[1:-1].replace('""', '"')
        t = re.sub(r"%\w+$", "", t)
        if re.fullmatch(r"-?\d+", t): return int(t)
        return t
    def expr():
        head = atom()
        args = []
        while peek() not in (None, "]", ")", ";", ",", "|}"):
            args.append(atom())
        if args: return (head,) + tuple(args)
        return head
    v = expr()
    return v

def coq_eval(name, preamble, evals, timeout=1200):
    """Write build/cases/<name>.v with `preamble` and one `Eval vm_compute in (e).` per entry of `evals`;
    compile it with coqc; return the parsed values in order."""
    d = os.path.join(BUILD, "cases"); os.makedirs(d, exist_ok=True)
    path = os.path.join(d, name + ".v")
    with open(path, "w") as f:
        f.write("Set Printing Width 100000000.\nSet Printing Depth 100000000.\n" + preamble + "\n")
        for e in evals:
            f.write("Eval vm_compute in (%s).\n" % e)
    rc, out = sh(["coqc", "-noglob", "-Q", os.path.join(COQ, "theories"), "DZ", path], cwd=d, timeout=timeout)
    if rc != 0:
        raise RuntimeError("coqc failed on %s:\n%s" % (path, out[-3000:]))
    vals = []
    for m in re.finditer(r"^\s*= (.*?)\n\s*: ", out, re.S | re.M):
        vals.append(parse_coq_term(" ".join(m.group(1).split())))
    if len(vals) != len(evals):
        raise RuntimeError("expected %d values from %s, got %d:\n%s" % (len(evals), path, len(vals), out[-2000:]))
    return vals

def coq_eval_sharded(name, preamble, cases, per_case_fn, shard=16, timeout=1800):
    """cases: list of Coq terms (strings). per_case_fn: Coq function applied to each case via DZ.Base `collect`-style
    evaluation: we evaluate `map f [c1; ...]` per shard in parallel. Returns list of parsed per-case values."""
    from concurrent.futures import ThreadPoolExecutor
    n = len(cases)
    if n == 0: return []
    k = max(1, min(shard, (n + 19) // 20))
    chunks = [cases[i::k] for i in range(k)]
    def work(i):
        body = "Definition cases := [\n%s\n]." % ";\n".join(chunks[i])
        return coq_eval("%s_%d" % (name, i), preamble + "\n" + body, ["map (%s) cases" % per_case_fn], timeout)[0]
    with ThreadPoolExecutor(max_workers=k) as ex:
        parts = list(ex.map(work, range(k)))
    out = [None] * n
    for i, p in enumerate(parts):
        for j, v in enumerate(p):
            out[i + j * k] = v
    return out

# ---------------------------------------------------------------- known findings, verdict, evidence

def known_findings(pid):
    try:
        kf = json.load(open(os.path.join(VERIF, "known_findings.json")))
    except FileNotFoundError:
        return []
    return [k for k in kf.get("known", []) if k.get("property") == pid]

def write_replay(pid, seed, payload, suffix=""):
    os.makedirs(os.path.join(VERIF, "replays"), exist_ok=True)
    path = os.path.join(VERIF, "replays", "%s-%s%s.json" % (pid, seed, suffix))
    with open(path, "w") as f:
        json.dump(payload, f, indent=1, default=str)
    return path

def write_evidence(pid, tier, seed, coverage, wall_s, violations, assumptions=None):
    os.makedirs(os.path.join(VERIF, "evidence"), exist_ok=True)
    ev = {"property_id": pid, "tier": tier, "seed": int(seed), "level": "proof", "coverage": coverage,
          "assumptions": assumptions or [], "wall_s": round(wall_s, 2), "violations": int(violations)}
    with open(os.path.join(VERIF, "evidence", pid + ".json"), "w") as f:
        json.dump(ev, f, indent=1, default=str)
    return ev

class Verdict:
    """Collects what a check found; emits the VIOLATION / KNOWN-FINDING lines and the exit code."""
    def __init__(self, pid, seed):
        self.pid, self.seed = pid, seed
        self.failing = []      # concrete failing inputs: (what, replay payload)
        self.broken = []       # theorem / correspondence that no longer checks, no failing input (yet)
        self.known_hits = []
    def fail_input(self, what, payload, finding_key=None):
        for k in known_findings(self.pid):
            if finding_key and k.get("key") == finding_key:
                self.known_hits.append((k, what)); return
        self.failing.append((what, payload))
    def break_(self, what, payload):
        self.broken.append((what, payload))
    def finish(self):
        for k, what in self.known_hits:
            print("KNOWN-FINDING: property=%s %s" % (self.pid, k.get("what", what)))
        n = 0
        if self.failing:
            what, payload = self.failing[0]
            payload = dict(payload, property=self.pid, seed=self.seed, verdict="failing input found", what=what,
                           also_broken=[w for w, _ in self.broken], other_failing=[w for w, _ in self.failing[1:6]])
            p = write_replay(self.pid, self.seed, payload)
            print("VIOLATION property=%s replay=%s" % (self.pid, p)); n = len(self.failing)
        elif self.broken:
            what, payload = self.broken[0]
            payload = dict(payload, property=self.pid, seed=self.seed, verdict="no failing input found",
                           no_longer_checks=[w for w, _ in self.broken])
            p = write_replay(self.pid, self.seed, payload, "-unproved")
            print("VIOLATION property=%s replay=%s no-failing-input-found" % (self.pid, p)); n = len(self.broken)
        return n

# ---------------------------------------------------------------- bank-level families

BANK_PRE = ("From DZ Require Import Base Keys Merkle BurnRate Shares Swap_Ring State World SwapDeq RD Passport Swap Exec Corr.\n"
            "Open Scope N_scope.\n")

def run_family(family, seed, n, length, extra=(), timeout=3000):
    """Run a harness family; returns (history lines, stats line)."""
    rc, out = sh([DZH, family, str(seed), str(n), str(length)] + [str(x) for x in extra], timeout=timeout)
    if rc != 0:
        raise RuntimeError("harness family %s failed (rc=%d):\n%s" % (family, rc, out[-3000:]))
    lines = [l for l in out.splitlines() if l.startswith("[") or l.startswith("let ")]
    stats = [l for l in out.splitlines() if l.startswith("#stats")]
    return lines, (stats[0] if stats else "")

def eval_traces(name, lines, fn="corr_trace", pre=BANK_PRE, shard=16):
    """Evaluate `fn` on every history (vm_compute in coqc, sharded). Returns a list of parsed values."""
    return coq_eval_sharded(name, pre, ["(%s)" % l for l in lines], fn, shard=shard)

def parse_stats(stats):
    d = {}
    m = re.search(r"txs=(\d+) ok=(\d+) fail=(\d+)", stats)
    if m: d.update(txs=int(m.group(1)), ok=int(m.group(2)), fail=int(m.group(3)))
    kinds = {}
    for k, a, b in re.findall(r"(\S+)=(\d+)/(\d+)", stats.split("kinds(ok/fail):")[-1]):
        kinds[k] = [int(a), int(b)]
    d["kinds"] = kinds
    return d
