"""Bank-level families: one cached evaluation of correspondence + all monitors per (family, seed, size)."""
import hashlib, json, os, glob, time
from . import common as C

MONITORS = ["C01", "C02", "C03", "C04", "C05", "C06", "C07", "C08", "C09", "C10", "C11", "C12", "C13", "C15", "C16", "C17", "C18"]
PRE = C.BANK_PRE.replace("Exec Corr.", "Exec Corr Monitors.")

def available_monitors():
    src = open(os.path.join(C.COQ, "theories", "Monitors.v")).read()
    return [m for m in MONITORS if ("Definition mon_%s " % m) in src]

def _vo_fingerprint():
    h = hashlib.sha256()
    for f in sorted(glob.glob(os.path.join(C.COQ, "theories", "*.v"))):
        if os.path.basename(f).startswith(("Props_", "Lemmas_")): continue
        h.update(open(f, "rb").read())
    return h.hexdigest()

def evaluate(family, seed, n, length, extra=()):
    """Returns dict: lines, stats, per-history results {corr: [...], mon: {Cxx: viol|None}}."""
    lines, stats = C.run_family(family, seed, n, length, extra)
    mons = available_monitors()
    key = hashlib.sha256(("\n".join(lines) + _vo_fingerprint() + ",".join(mons)).encode()).hexdigest()[:24]
    cdir = os.path.join(C.BUILD, "cache"); os.makedirs(cdir, exist_ok=True)
    cpath = os.path.join(cdir, "%s-%s.json" % (family, key))
    if os.path.exists(cpath):
        try:
            r = json.load(open(cpath)); r["lines"] = lines; r["cached"] = True; return r
        except Exception: pass
    ok, out = C.build_coq(["Monitors"])
    if not ok:
        raise RuntimeError("model does not build:\n" + out[-3000:])
    fn = "fun t => (corr_all t, [%s])" % "; ".join("mon_%s t" % m for m in mons)
    t = time.time()
    res = C.eval_traces("%s_%s" % (family.replace("-", "_"), seed), lines, fn=fn, pre=PRE)
    out = {"stats": stats, "monitors": mons, "results": [], "eval_s": round(time.time() - t, 1)}
    for r in res:
        corr, ms = r
        out["results"].append({"corr": corr, "mon": {m: (None if v == "None" else v) for m, v in zip(mons, ms)}})
    json.dump(out, open(cpath, "w"))
    out["lines"] = lines; out["cached"] = False
    return out
