"""Generic driver for the bank-level properties: correspondence (attributed by instruction footprint) + monitor."""
import json, os
from . import common as C
from . import bank
from .dbg import split_history

# instruction tags (coq/theories/Corr.v: rd_tag, pp_tag, sw_tag, ix_tag); 1000+t = the same instruction through a CPI
TAGS = {1: "RInitializeProgram", 2: "RMigrate", 3: "RSetAdmin", 4: "RConfigureProgram", 5: "RInitializeJournal",
        6: "RInitializeDistribution", 7: "RConfigureDebt", 8: "RFinalizeDebt", 9: "RConfigureRewards", 10: "RFinalizeRewards",
        11: "RDistributeRewards", 12: "RInitializeContributor", 13: "RSetRewardsManager", 14: "RConfigureContributor",
        15: "RVerifyRoot", 16: "RInitializeDeposit", 17: "RPayDebt", 18: "REnableWriteOff", 19: "RWriteOff",
        20: "RInitializeSwapDestination", 21: "RSweep", 22: "RWithdrawSol", 31: "PInitializeProgram", 32: "PSetAdmin",
        33: "PConfigureProgram", 34: "PRequestAccess", 35: "PGrantAccess", 36: "PDenyAccess", 41: "SInitializeFillsRegistry",
        42: "SBuySol", 43: "SDequeueFills", 51: "SysTransfer", 52: "SysCreate", 53: "TokTransfer", 54: "TokTransferChecked",
        55: "TokBurn", 61: "RogueBuy", 71: "SetClock", 72: "Airdrop", 73: "Forge", 74: "MintTo", 75: "CreateAta"}
RD_ALL = set(range(1, 23)); PP_ALL = set(range(31, 37))

def tag_names(tags):
    return [("viaCPI:" if t >= 1000 else "") + TAGS.get(t % 1000, str(t)) for t in tags]

def run(pid, ctx, v, families, footprint, monitor=None, clause_filter=None, kinds_of_interest=None):
    """families: list of (family, (n_quick, len_quick), (n_thorough, len_thorough), extra args)."""
    thorough = ctx["tier"] == "thorough"
    cov = {"evaluations": 0, "distinct_nontrivial": 0, "traces_validated_against_impl": 0, "families": {},
           "correspondence_disagreements": 0, "monitor_rejections": 0, "samples": []}
    seen_kinds = set()
    for fam, q, t, extra in families:
        n, length = t if thorough else q
        seeds = [ctx["seed"]] if not thorough else [ctx["seed"], ctx["seed"] + 1000]
        for seed in seeds:
            r = bank.evaluate(fam, seed, n, length, extra)
            st = C.parse_stats(r["stats"])
            cov["evaluations"] += st.get("txs", 0)
            cov["traces_validated_against_impl"] += len(r["lines"])
            fc = cov["families"].setdefault(fam, {"histories": 0, "txs": 0, "ok": 0, "fail": 0, "kinds_ok_fail": {}})
            fc["histories"] += len(r["lines"]); fc["txs"] += st.get("txs", 0); fc["ok"] += st.get("ok", 0); fc["fail"] += st.get("fail", 0)
            for k, (a, b) in st.get("kinds", {}).items():
                e = fc["kinds_ok_fail"].setdefault(k, [0, 0]); e[0] += a; e[1] += b
                if kinds_of_interest is None or any(x in k for x in kinds_of_interest):
                    if a: seen_kinds.add((fam, k, "ok"))
                    if b: seen_kinds.add((fam, k, "fail"))
            for hi, res in enumerate(r["results"]):
                mon_name = monitor or pid
                mv = res["mon"].get(mon_name)
                if mv is not None and clause_filter is not None and not clause_filter(_clause(mv)):
                    mv = None
                mine = [d for d in res["corr"] if set(x % 1000 for x in d[1]) & footprint]
                if mv is not None:
                    cov["monitor_rejections"] += 1
                    step, key, clause, wit = _viol(mv)
                    v.fail_input("monitor mon_%s rejects the implementation's trace: family %s seed %d history %d step %d account %s clause %d witness %d"
                                 % (mon_name, fam, seed, hi, step, key, clause, wit),
                                 _replay(fam, seed, n, length, hi, step, r["lines"][hi], "mon_%s clause %d" % (mon_name, clause)),
                                 finding_key="%s:clause%d" % (pid, clause))
                if mine:
                    cov["correspondence_disagreements"] += len(mine)
                    d = mine[0]
                    step = d[0]
                    v.break_("correspondence (model vs implementation) diverges on %s: family %s seed %d history %d step %d: %s"
                             % ("/".join(tag_names(d[1])), fam, seed, hi, step, _short(d[2])),
                             _replay(fam, seed, n, length, hi, step, r["lines"][hi], "corr_all: model expected %s" % _short(d[2])))
            if not cov["samples"] and r["lines"]:
                defs, steps = split_history(r["lines"][0])
                pick = [s for s in steps if s.startswith("(OTx")][-3:]
                cov["samples"] = [s[:1500] for s in pick]
    cov["distinct_nontrivial"] = len(seen_kinds)
    cov["rule"] = ("seeded scenario histories executed on the real processors inside solana-program-test's bank and on the Gallina model "
                   "(vm_compute); each step compares accept/reject and every touched account's decoded content; "
                   "distinct_nontrivial = distinct (family, instruction kind, accepted/rejected) triples observed among the kinds this property depends on")
    return cov

def _viol(mv):
    # ('Some', (step, key, clause, witness))
    t = mv[1]
    return t[0], t[1], t[2], t[3]
def _clause(mv): return mv[1][2]
def _short(d): return str(d)[:400]

def _replay(fam, seed, n, length, hi, step, line, why):
    defs, steps = split_history(line)
    return {"family": fam, "seed": seed, "n_histories": n, "length": length, "history_index": hi, "step": step, "why": why,
            "replay": "deterministic: ./harness/target/debug/dzh %s %d %d %d regenerates history %d" % (fam, seed, n, length, hi),
            "failing_step": steps[step][:6000] if step < len(steps) else None,
            "history_prefix_ops": [s[:300] for s in steps[max(0, step - 12):step]]}
