"""C19 — instruction wire formats are injective, selector-unique and strictly parsed.
Theorems: Props_C19.v (for each of the three instruction enums: decode∘encode = id with any remainder, canonicity, injectivity,
trailing / truncated / unknown-selector / short strings refused, selector tables duplicate-free, the head of
try_process_instruction answers IncorrectProgramId / InvalidInstructionData before any account; nested payloads likewise).
Tie: `dzh direct-wire` generates instruction VALUES of all 31 kinds (and all nested kinds), takes the real `borsh::to_vec`
bytes, applies single edits (truncate, append, flip a selector / payload byte, unrelated strings) and records for every
byte string the real `try_from_slice` result and the error class of the real `verif_process_instruction` on an empty
account list. corr_C19: model encoding = real bytes byte for byte, model try_from_slice = real result on every string,
model error class = real class (the one property where error codes are compared). mon_C19: the property read on the
implementation's answers alone. Byte strings travel packed (7 bytes per Uint63 literal) because Coq parses N literals slowly."""
import re
from .. import common as C

ASSUMPTIONS = [
    "direct-call family: the real processors are called natively with an empty account list at transaction level (stack height 1); "
    "the class of an answer is InvalidInstructionData / IncorrectProgramId / anything else (= the parser accepted and a handler ran)",
    "modelled: the three instruction enums with every nested payload type, Borsh try_from_slice, the program-id check and the parse step of "
    "try_process_instruction, and the `try_leaf_index` argument check that four revenue-distribution handlers make before reading accounts; "
    "not modelled: what handlers do after that (other properties)",
    "Merkle proofs deeper than 6 are built from bytes in svm-hash's layout through svm-hash's own deserialiser (its sibling vector is private); "
    "their fields are read back through the crate's public iterator",
    "case files use Coq's primitive 63-bit integers only to transport byte strings (unpacked to list N before the model sees them); theorems do not",
]

PRE = """From Coq Require Import Uint63.
From DZ Require Import Base Codec Wire.
Open Scope N_scope.
(* transport encoding of byte strings: 7 bytes per primitive integer, little endian, `B len words` *)
Definition bitN (w k : int) (v : N) : N := if PrimInt63.eqb (PrimInt63.land (PrimInt63.lsr w k) 1%uint63) 0%uint63 then 0 else v.
Definition byteN (w sh : int) : N :=
  let x := PrimInt63.lsr w sh in
  bitN x 0%uint63 1 + bitN x 1%uint63 2 + bitN x 2%uint63 4 + bitN x 3%uint63 8 + bitN x 4%uint63 16 + bitN x 5%uint63 32 + bitN x 6%uint63 64 + bitN x 7%uint63 128.
Fixpoint unpack (ws : list int) : list N :=
  match ws with
  | [] => []
  | w :: tl => byteN w 0%uint63 :: byteN w 8%uint63 :: byteN w 16%uint63 :: byteN w 24%uint63 :: byteN w 32%uint63 :: byteN w 40%uint63 :: byteN w 48%uint63 :: unpack tl
  end.
Definition B (len : N) (ws : list int) : list N := firstn (N.to_nat len) (unpack ws).
"""

CORR_WHAT = {1: "model encoding differs from the real borsh::to_vec bytes", 2: "model try_from_slice differs from the real try_from_slice",
             3: "model error class differs from the real processor's", 4: "edit applied in Coq yields another byte string than in the harness (length/byte sum)",
             5: "model error class under the foreign program id differs from the real processor's"}
MON_WHAT = {11: "real decode(encode(x)) is not x", 12: "a truncated or extended encoding was not refused with InvalidInstructionData",
            13: "a byte string that does not parse was not answered InvalidInstructionData",
            14: "a byte string parsed although its first 8 bytes are not a selector of the program (or it is shorter than a selector)",
            15: "a byte string parsed to a value whose real re-encoding is a different byte string (second spelling of an instruction)",
            16: "a call carrying another program's id was not answered IncorrectProgramId"}

def _group(s, i):
    """s[i] == '(' -> index just after the matching ')'."""
    d = 0
    for j in range(i, len(s)):
        if s[j] == "(": d += 1
        elif s[j] == ")":
            d -= 1
            if d == 0: return j + 1
    raise ValueError("unbalanced")

def _split_case(line):
    """'WCase (value) (B n [..]%uint63) (B 32 ..) class [Obs ..; Obs ..]' -> value, bytes, [obs strings]."""
    i = line.index("(")
    j = _group(line, i); value = line[i:j]
    i2 = line.index("(", j); j2 = _group(line, i2); enc = line[i2:j2]
    k = line.index("[Obs ", j2)
    obs = line[k + 1:line.rindex("]")].split("; Obs ")
    obs = [o if o.startswith("Obs ") else "Obs " + o for o in obs]
    return value, enc, obs

def _kv(line):
    return dict((k, int(x)) for k, x in (p.split("=") for p in line.split(" ", 1)[1].split(",") if "=" in p))

INVENTORY = {
    "programs/revenue-distribution/src/instruction/mod.rs": ("RevenueDistributionInstructionData", ["InitializeProgram", "MigrateProgramAccounts", "SetAdmin",
        "ConfigureProgram", "InitializeJournal", "InitializeDistribution", "ConfigureDistributionDebt", "FinalizeDistributionDebt",
        "ConfigureDistributionRewards", "FinalizeDistributionRewards", "DistributeRewards", "InitializeContributorRewards", "SetRewardsManager",
        "ConfigureContributorRewards", "VerifyDistributionMerkleRoot", "InitializeSolanaValidatorDeposit", "PaySolanaValidatorDebt",
        "EnableSolanaValidatorDebtWriteOff", "WriteOffSolanaValidatorDebt", "InitializeSwapDestination", "SweepDistributionTokens", "WithdrawSol"]),
    "programs/passport/src/instruction/mod.rs": ("PassportInstructionData", ["InitializeProgram", "SetAdmin", "ConfigureProgram", "RequestAccess", "GrantAccess", "DenyAccess"]),
    "mock/swap-sol-2z/src/instruction.rs": ("MockSwapSol2zInstructionData", ["InitializeFillsRegistry", "BuySol", "DequeueFills"]),
}

def instruction_inventory(v):
    """The variant lists of the three instruction enums in /repo's current source must be the ones the model knows
    (a new instruction is outside the model: the tie of every property whose frame it could touch is broken)."""
    for rel, (enum, expected) in INVENTORY.items():
        try:
            src = open("/repo/" + rel).read()
        except OSError as e:
            v.break_("instruction inventory: cannot read %s (%r)" % (rel, e), {}); continue
        m = re.search(r"pub enum %s\s*\{(.*?)\n\}" % enum, src, re.S)
        if not m:
            v.break_("instruction inventory: enum %s not found in %s" % (enum, rel), {}); continue
        body = re.sub(r"//[^\n]*", "", m.group(1))
        body = re.sub(r"\{[^{}]*\}|\([^()]*\)", "", body)
        found = [x.strip() for x in body.split(",") if x.strip()]
        if found != expected:
            v.break_("instruction inventory of %s differs from the model: source has %s, model knows %s" % (enum, found, expected),
                     {"file": rel, "source_variants": found, "model_variants": expected})

def run(ctx, v):
    instruction_inventory(v)
    quick = ctx["tier"] == "quick"
    # values cycle through the 31 instruction kinds (nested kinds rotate with the round); see direct_wire.rs
    n_values, trunc_all_below, per_kind, batch = (434, 0, 1, 4000) if quick else (4030, 48, 2, 1240)
    args = [str(ctx["seed"]), str(n_values), str(trunc_all_below), str(per_kind)]
    rc, out = C.sh([C.DZH, "direct-wire"] + args, timeout=1200)
    if rc != 0:
        v.break_("harness direct-wire failed", {"log": out[-2000:]}); return {}
    lines = [l for l in out.splitlines() if l.startswith("WCase")]
    meta = dict((l.split(" ", 1)[0], l) for l in out.splitlines() if l.startswith("#"))
    res = []
    for b in range(0, len(lines), batch):
        res += C.coq_eval_sharded("C19_%d" % (b // batch), PRE, lines[b:b + batch], "fun c => (corr_C19 c, mon_C19 c)")

    # measured coverage: every observation is one byte string given to the real decoder and the real processor
    n_obs = n_parsed = 0
    by_edit, seen, nontrivial = {}, set(), set()
    enc_of = {}           # (program, real encoding) -> value term (two distinct values of one program must never share bytes)
    shared = []
    for idx, l in enumerate(lines):
        value, enc, obs = _split_case(l)
        ek = (value[:4], enc)      # per program: the three programs deliberately share some selectors, the program id separates them
        if ek in enc_of and enc_of[ek] != value: shared.append((idx, value, enc_of[ek]))
        enc_of.setdefault(ek, value)
        has_payload = not re.match(r"\(B 8 ", enc)
        for o in obs:
            n_obs += 1
            m = re.match(r"Obs (ESame|\((E\w+)) ", o)
            kind = m.group(2) or m.group(1)
            if kind == "EFlip": kind = "EFlip_selector" if int(re.match(r"Obs \(EFlip (\d+) ", o).group(1)) < 8 else "EFlip_payload"
            by_edit[kind] = by_edit.get(kind, 0) + 1
            parsed = "(Some (" in o
            n_parsed += parsed
            key = (enc, o.split(" None ")[0] if not parsed else o)
            if key in seen: continue
            seen.add(key)
            if has_payload or parsed: nontrivial.add(key)

    def detail(i):
        rc2, out2 = C.sh([C.DZH, "direct-wire"] + args + [str(i)], timeout=1200)
        return [l for l in out2.splitlines() if l.startswith("#detail")]

    corr_bad = [(i, r[0]) for i, r in enumerate(res) if r[0] != "None"]
    mon_bad = [(i, r[1]) for i, r in enumerate(res) if r[1] != "None"]
    for i, d in mon_bad[:5]:
        k, w = d[1]
        det = detail(i)
        at = [x for x in det if (" obs=%d " % k) in x] if k else [x for x in det if " value=" in x]
        v.fail_input("%s (case %d, byte string %d)" % (MON_WHAT.get(w, "monitor code %s" % w), i, k),
                     {"family": "direct-wire", "harness_args": args, "case_index": i, "observation": k, "monitor": "mon_C19", "code": w,
                      "meaning": MON_WHAT.get(w), "input": at[:1], "all_observations_of_case": det, "case": lines[i][:20000]})
    for i, a, b in shared[:3]:
        v.fail_input("two distinct instruction values have the same real encoding (case %d)" % i,
                     {"family": "direct-wire", "harness_args": args, "case_index": i, "value_a": a[:4000], "value_b": b[:4000]})
    if corr_bad and not mon_bad and not shared:
        i, d = corr_bad[0]
        k, w = d[1]
        v.break_("correspondence corr_C19 (Wire.v vs the real code): %s (case %d, byte string %d)" % (CORR_WHAT.get(w, "code %s" % w), i, k),
                 {"family": "direct-wire", "harness_args": args, "case_index": i, "observation": k, "code": w, "meaning": CORR_WHAT.get(w),
                  "details": detail(i), "case": lines[i][:20000], "other_disagreeing_cases": [j for j, _ in corr_bad[1:20]]})

    variants = _kv(meta.get("#variants", "#variants "))
    depths = _kv(meta.get("#proof_depths", "#proof_depths "))
    samples = lines[:2] + [l for l in lines if "MProof [Sib" in l][:1] + [l for l in lines if l.startswith("WCase (VPp (PpRequestAccess")][:1]
    return {"evaluations": n_obs, "distinct_nontrivial": len(nontrivial),
            "rule": "seeded values cycling through all 31 instruction kinds of the three enums (nested configuration kinds rotate; integers boundary-dense; "
                    "Merkle proofs of depth 0..32; recipient lists 0..10; backup-id lists 0..16); per value: the valid encoding, truncations (%s), appended bytes, "
                    "selector-byte flips, payload-byte flips, unrelated strings (valid selector + noise, other programs' selectors, noise), and one call under a foreign program id; "
                    "an evaluation = one byte string through the real try_from_slice and the real processor; non-trivial = distinct (encoding, edit) pair whose valid "
                    "encoding carries a payload or whose byte string parsed; byte strings are written `B len [7-byte little-endian words]`"
                    % ("every length for encodings up to %d bytes, boundaries and a sample above" % trunc_all_below if trunc_all_below else "len-1, boundaries and a sample"),
            "values": len(lines), "distinct_values": len(enc_of), "byte_strings_parsed_by_the_real_decoder": n_parsed,
            "by_edit": by_edit, "per_variant_values": variants, "instruction_kinds_covered": len(set(k.split("/")[0] for k in variants)),
            "proof_depths": depths, "harness_stats": meta.get("#stats", "")[:3000],
            "traces_validated_against_impl": len(lines), "correspondence_disagreements": len(corr_bad), "monitor_rejections": len(mon_bad) + len(shared),
            "samples": samples}
