"""C14 — community burn rate never decreases, never passes its limit (<= 100%), follows the ramp; reconfiguration rules.
Theorems: Props_C14.v (wf preserved, compute never fails and returns the cached rate, rates non-decreasing / <= limit <= 10^9
over arbitrary interleavings, refinement of the closed-form schedule, static / ramp / limit phases, exact acceptance condition,
rejected = unchanged, initial rate only at epoch 0).
Tie: `dzh direct-burn` drives the REAL processor by direct call: ConfigureProgram(CommunityBurnRateParameters{..}) for every
reconfiguration (-> CommunityBurnRateParameters::{new, checked_update}) and InitializeDistribution for every epoch advance
(-> checked_compute, rate read back from the new Distribution account); after every operation the 24-byte parameter block
and next_completed_dz_epoch are read from the program config.  corr_C14: the Gallina model predicts every result, block
and epoch.  mon_C14: the property's closed-form specification run on the implementation trace alone."""
import re
from .. import common as C

ASSUMPTIONS = [
    "direct-call family: CPIs issued by InitializeDistribution (create account, token account) are stubbed to succeed; Clock/Rent come from harness stubs; a panic inside the processor counts as a failed instruction",
    "on a failed instruction the harness restores the program config (as the runtime would) AFTER recording the parameter block, so a failing path that writes the block is still observed",
    "modelled: CommunityBurnRateParameters::{new, checked_update, checked_compute}, the CommunityBurnRateParameters arm of try_configure_program, the stamping and epoch increment of try_initialize_distribution; not modelled here: their account/authority checks and the other preconditions of InitializeDistribution (grace periods, fee parameters, relay lamports: configured once by the harness)",
    "instruction arguments are u32 (Forall op_ok in the theorems; corr_C14 refuses any other trace item)",
]
PRE = "From DZ Require Import Base BurnRate.\nOpen Scope N_scope.\n"
ITEM = re.compile(r"\((BCompute|BUpdate (\d+) (\d+) (\d+) (None|\(Some (\d+)\))), (RRate (\d+)|RAcc|RRej|RFail), mkP (\d+) (\d+) (\d+) (\d+) (\d+) (\d+), (\d+)\)")
CLAUSE = {1: "result differs from the specification (acceptance condition / rate of the schedule)", 2: "distribution count",
          3: "assigned rate decreased", 4: "assigned rate above the limit or limit above 100%", 5: "limit changed by a distribution",
          6: "next rate does not follow the ramp", 7: "accepted reconfiguration did not store its arguments", 8: "accepted reconfiguration changed the next rate",
          9: "next rate above the new limit", 10: "a rejected / failed operation changed the parameter block", 11: "unexpected initial state"}

def measure(lines):
    """Coverage measured from the traces themselves (not from the harness's #stats line)."""
    m = dict(accepted=0, rejected=0, rejected_limit_below_next=0, rejected_zero_static=0, rejected_limit_epoch_before_static=0,
             rejected_limit_above_max=0, rejected_initial_after_first_distribution=0, rejected_zero_initial=0, accepted_initial=0, accepted_initial_replacing=0,
             rates=0, static=0, increasing=0, limit=0, compute_failed=0, rate_increases=0, histories_all_three_phases=0,
             histories_with_update_during_ramp=0, ops=0, max_rate=0)
    for l in lines:
        blk = (0, 0, 0, 0, 0, 0); epoch = 0; last = None; phases = set(); upd_ramp = False
        for it in ITEM.finditer(l):
            m["ops"] += 1
            op, lim, ti, tl, init, initv, res, rate = it.group(1, 2, 3, 4, 5, 6, 7, 8)
            nb = tuple(int(x) for x in it.group(9, 10, 11, 12, 13, 14)); ne = int(it.group(15))
            if op == "BCompute":
                if res.startswith("RRate"):
                    r = int(rate); m["rates"] += 1; m["max_rate"] = max(m["max_rate"], r)
                    ph = "static" if blk[1] != 0 else ("increasing" if blk[2] != 0 else "limit")
                    m[ph] += 1; phases.add(ph)
                    if last is not None and r > last: m["rate_increases"] += 1
                    last = r
                else: m["compute_failed"] += 1
            else:
                lim, ti, tl = int(lim), int(ti), int(tl)
                if res == "RAcc":
                    m["accepted"] += 1
                    if init != "None":
                        m["accepted_initial"] += 1
                        if blk[5] != 0: m["accepted_initial_replacing"] += 1
                    if blk[1] == 0 and blk[2] != 0: upd_ramp = True
                else:
                    m["rejected"] += 1
                    if init != "None" and epoch != 0: m["rejected_initial_after_first_distribution"] += 1
                    elif lim > 10**9: m["rejected_limit_above_max"] += 1
                    elif ti == 0: m["rejected_zero_static"] += 1
                    elif tl < ti: m["rejected_limit_epoch_before_static"] += 1
                    elif init != "None" and int(initv) == 0: m["rejected_zero_initial"] += 1
                    elif lim < (int(initv) if init != "None" else blk[5]): m["rejected_limit_below_next"] += 1
            blk, epoch = nb, ne
        if {"static", "increasing", "limit"} <= phases: m["histories_all_three_phases"] += 1
        if upd_ramp: m["histories_with_update_during_ramp"] += 1
    return m

def run(ctx, v):
    n, maxlen, batch = (1500, 40, 1500) if ctx["tier"] == "quick" else (50000, 40, 6400)
    rc, out = C.sh([C.DZH, "direct-burn", str(ctx["seed"]), str(n), str(maxlen)], timeout=1200)
    if rc != 0:
        v.break_("harness direct-burn failed", {"log": out[-2000:]}); return {}
    lines = [l for l in out.splitlines() if l.startswith("(mkP")]
    stats = [l for l in out.splitlines() if l.startswith("#stats")]
    res = []
    for b in range(0, len(lines), batch):     # batches keep each coqc process small (about 27 us and 0.9 KB of heap per input byte)
        res += C.coq_eval_sharded("C14_%d" % (b // batch), PRE, lines[b:b + batch], "fun c => (corr_C14 c, mon_C14 c)")
    m = measure(lines)
    distinct = len(set(lines))
    nontrivial = len(set(l for l in lines if l.count("RRate") >= 2 and "RAcc" in l and "RRej" in l))
    corr_bad = [(i, r[0]) for i, r in enumerate(res) if r[0] != "None"]
    mon_bad = [(i, r[1]) for i, r in enumerate(res) if r[1] != "None"]
    for i, d in mon_bad[:5]:
        step, clause = d[1]
        v.fail_input("community burn rate property violated by the implementation at step %s of history %d: %s" % (step, i, CLAUSE.get(clause, clause)),
                     {"family": "direct-burn", "history": lines[i], "monitor": "mon_C14", "step": step, "clause": clause,
                      "clause_text": CLAUSE.get(clause, ""), "model_expected": str(res[i][0])}, finding_key=None)
    if corr_bad and not mon_bad:
        i, d = corr_bad[0]
        v.break_("correspondence corr_C14 (BurnRate.v vs the real processor) diverges at step %s of history %d" % (d[1][0], i),
                 {"family": "direct-burn", "history": lines[i], "model_expected": str(d)})
    return {"evaluations": m["ops"], "distinct_nontrivial": nontrivial,
            "rule": "seeded histories (length 1..%d) of ConfigureProgram(CommunityBurnRateParameters) and InitializeDistribution through the real processor by direct call, boundary-dense arguments (0, 1, 10^9, 10^9+-1, u32::MAX, to_limit = to_increasing, ...), limits aimed at the current next rate; plus a fixed corpus (the crate's unit-test vectors, rounding and u32::MAX shapes); non-trivial = distinct history with >=2 assigned rates, >=1 accepted and >=1 rejected reconfiguration" % maxlen,
            "histories": len(lines), "distinct_histories": distinct, "measured": m, "harness_stats": stats[0] if stats else "",
            "traces_validated_against_impl": len(lines), "correspondence_disagreements": len(corr_bad), "monitor_rejections": len(mon_bad),
            "samples": lines[:3]}
