"""C20 — mock swap fills registry is a lossless FIFO.
Theorems: Props_C20.v (ring as coded refines a list queue of capacity 8, for every operation sequence).
Tie: direct calls of the real mock-swap processor on seeded buy/dequeue histories; the ring model must predict every
result and every dequeue's return data (corr_C20); the queue specification is run on the implementation trace (mon_C20)."""
from .. import common as C

ASSUMPTIONS = [
    "direct-call family: CPIs issued by BuySol (token transfer, WithdrawSol) are stubbed to succeed; only the registry is observed",
    "modelled: try_buy_sol / try_dequeue_fills registry logic and FillsRegistry layout (capacity from Generated.v); not modelled here: account checks of BuySol (see C09)",
]
PRE = "From DZ Require Import Base Swap_Ring.\nOpen Scope N_scope.\n"

def run(ctx, v):
    n, maxlen = (400, 40) if ctx["tier"] == "quick" else (20000, 64)
    rc, out = C.sh([C.DZH, "direct-swap", str(ctx["seed"]), str(n), str(maxlen)], timeout=1200)
    if rc != 0:
        v.break_("harness direct-swap failed", {"log": out[-2000:]}); return {}
    lines = [l for l in out.splitlines() if l.startswith("[")]
    stats = [l for l in out.splitlines() if l.startswith("#stats")]
    res = C.coq_eval_sharded("C20", PRE, lines, "fun c => (corr_C20 c, mon_C20 c)")
    ops = sum(l.count("(S") for l in lines)
    distinct = len(set(lines))
    nontrivial = len(set(l for l in lines if "ROkRet" in l and l.count("SBuy") >= 2))
    corr_bad = [(i, r[0]) for i, r in enumerate(res) if r[0] != "None"]
    mon_bad = [(i, r[1]) for i, r in enumerate(res) if r[1] != "None"]
    for i, d in mon_bad[:5]:
        v.fail_input("FIFO violated by the implementation at step %s of history %d (queue specification expects %s)" % (d[1][0], i, (d[1][1],)),
                     {"family": "direct-swap", "history": lines[i], "monitor": "mon_C20", "expected_at_step": str(d)},
                     finding_key=None)
    if corr_bad and not mon_bad:
        i, d = corr_bad[0]
        v.break_("correspondence corr_C20 (ring model vs mock-swap processor) diverges at step %s of history %d" % (d[1][0], i),
                 {"family": "direct-swap", "history": lines[i], "model_expected": str(d)})
    return {"evaluations": ops, "distinct_nontrivial": nontrivial,
            "rule": "seeded random buy/dequeue histories (length 1..%d) through the real processor by direct call, biased to dequeue the oldest fill so the head advances before further buys; non-trivial = distinct history with >=2 buys and >=1 successful dequeue" % maxlen,
            "histories": len(lines), "distinct_histories": distinct, "harness_stats": stats[0] if stats else "",
            "traces_validated_against_impl": len(lines), "correspondence_disagreements": len(corr_bad), "monitor_rejections": len(mon_bad),
            "samples": lines[:3]}
