"""C02 — bank-level check: proof obligations (Props_C02.v) are handled by ./check; this module runs the correspondence
of the Gallina model with the real processors (attributed to this property by instruction footprint) and the monitor
mon_C02 (the property's statement evaluated on the implementation's trace alone)."""
from .. import bankprop
from . import pure_shares
from ..bankprop import RD_ALL, PP_ALL

ASSUMPTIONS = [
    "modelled (hand-written Gallina, tied by differential execution, not proved equal): the instruction processors, account layouts, System/SPL-Token instructions used, CPI privilege rules, rent-state rule, message-level signer/writable flags",
    "idealised: SHA-256 and address derivation are collision-free and domain-separated (symbolic hashes, structured keys); only wallets sign",
    "the real processors run natively inside solana-program-test 3.0.12 (vendored patches under harness/vendor), overflow checks off",
]
FOOTPRINT = {6,11,21}
FAMILIES = [("bank-directed", (23, 0), (23, 0), ()), ("bank-rd", (16, 140), (48, 260), ())]

def run(ctx, v):
    pure = pure_shares.run_pure(ctx, v, kinds=['mul', 'split'], tag='C02')
    cov = bankprop.run("C02", ctx, v, FAMILIES, FOOTPRINT, monitor="C02", clause_filter=lambda c: c < 20, kinds_of_interest=['RDistributeRewards', 'RSweep', 'RInitializeDistribution'])
    cov['pure_core'] = {k: pure[k] for k in pure if k != 'samples'}
    cov['evaluations'] += pure.get('evaluations', 0)
    cov['distinct_nontrivial'] += pure.get('distinct_nontrivial', 0)
    cov['samples'] = (cov.get('samples') or []) + list(pure.get('samples', []))[:2]
    return cov
