"""C12 — bank-level check: proof obligations (Props_C12.v) are handled by ./check; this module runs the correspondence
of the Gallina model with the real processors (attributed to this property by instruction footprint) and the monitor
mon_C12 (the property's statement evaluated on the implementation's trace alone)."""
from .. import bankprop
from ..bankprop import RD_ALL, PP_ALL

ASSUMPTIONS = [
    "modelled (hand-written Gallina, tied by differential execution, not proved equal): the instruction processors, account layouts, System/SPL-Token instructions used, CPI privilege rules, rent-state rule, message-level signer/writable flags",
    "idealised: SHA-256 and address derivation are collision-free and domain-separated (symbolic hashes, structured keys); only wallets sign",
    "the real processors run natively inside solana-program-test 3.0.12 (vendored patches under harness/vendor), overflow checks off",
]
FOOTPRINT = {9,10}
FAMILIES = [("bank-directed", (23, 0), (23, 0), ()), ("bank-rd", (16, 140), (48, 260), ())]

def run(ctx, v):
    return bankprop.run("C12", ctx, v, FAMILIES, FOOTPRINT, monitor="C12", clause_filter=None, kinds_of_interest=['RFinalizeRewards', 'RConfigureRewards'])
