"""C13 — a correctly operated epoch always runs to completion with SDK-built instructions.
Family `honest`: random protocol configurations, tree sizes, amounts and legal interleavings of up to three overlapping
epochs; every instruction is built with the crate's own encoders and account-list builders and executed on the real
processors in the bank.  mon_C13: no honest transaction is refused and every completed epoch ends complete
(all leaves settled / distributed, custody residue < number of leaves and equal to the books, account rent exempt)."""
import os
from .. import bankprop, bank
from .. import common as C
from ..bankprop import RD_ALL, PP_ALL

ASSUMPTIONS = [
    "modelled (hand-written Gallina, tied by differential execution, not proved equal): the instruction processors, account layouts, System/SPL-Token instructions used, CPI privilege rules, rent-state rule, message-level signer/writable flags",
    "the honest procedure is the generator's: configure every parameter, wait out grace periods, fund deposits (unfunded validators are written off into the same epoch), exact total debt, shares totalling 100%, buy exactly the collectible debt through the mock, sweep in epoch order",
    "the real processors run natively inside solana-program-test 3.0.12 (vendored patches under harness/vendor), overflow checks off",
]
FOOTPRINT = RD_ALL | {42}
FAMILIES = [("bank-honest", (12, 0), (64, 0), ())]

def run(ctx, v):
    cov = bankprop.run("C13", ctx, v, FAMILIES, FOOTPRINT, monitor="C13", clause_filter=None, kinds_of_interest=None)
    # the account-list builders transcribed in Builders.v must reproduce the real builders' output on every honest transaction
    if os.path.exists(os.path.join(C.COQ, "theories", "Builders.v")):
        ok, out = C.build_coq(["Builders"])
        if not ok:
            v.break_("Builders.v does not build", {"log": out[-2000:]}); return cov
        n = FAMILIES[0][2][0] if ctx["tier"] == "thorough" else FAMILIES[0][1][0]
        lines, _ = C.run_family("bank-honest", ctx["seed"], n, 0)
        pre = bank.PRE.replace("Exec Corr Monitors.", "Exec Corr Monitors Builders.")
        res = C.eval_traces("C13_builders", lines, fn="builders_agree", pre=pre)
        bad = [(i, r) for i, r in enumerate(res) if r != "None"]
        cov["builder_transactions_checked_histories"] = len(lines); cov["builder_disagreements"] = len(bad)
        if bad:
            i, r = bad[0]
            v.break_("the real account-list builders differ from their transcription in Builders.v: history %d, step/metas %s" % (i, str(r)[:500]),
                     {"family": "bank-honest", "seed": ctx["seed"], "history_index": i, "model_metas": str(r)[:2000]})
    return cov
