"""Pure shares family — the arithmetic/data cores behind C02, C03 and C16 (imported by those property modules).
Theorems: Props_Shares.v.  Tie: `dzh direct-shares` calls the real public API of the revenue-distribution crate
(UnitShare16/32, RewardShare, Distribution::split_2z_amount, RecipientShares) on seeded boundary-dense inputs; the
Gallina model (Shares.v, Recipients.v) must predict every observed result exactly (corr_shares) and the property clauses
are evaluated on the observed results alone (mon_shares).

API: run_pure(ctx, v, kinds) with kinds a subset of KINDS; returns the coverage dict."""
import glob, os, re
from .. import common as C

KINDS = ("mul", "split", "pack", "recipients")
ASSUMPTIONS = [
    "pure family: the real crate functions are called directly (no accounts, no CPI); a Rust panic inside the crate is observed with catch_unwind and compared as failure",
    "the three u64 statements of try_distribute_rewards between split_2z_amount and the burn (total += amount; count == 0 => Err; burn += remaining - total) are not callable in isolation: the harness replays them on the real intermediate values (CSplit `glue`); the instruction-level families exercise them in place",
    "keys are compared as 256-bit numbers (big-endian reading of the 32 bytes); only `== Pubkey::default()` matters to the modelled code",
    "stored values that no constructor produces (shares above MAX, arbitrary remaining_bytes, tables RecipientShares::new rejects) are injected through the types' Pod casts / public fields to test the model outside the valid range; the monitor constrains only the valid range",
]
PRE = "From DZ Require Import Base Shares Recipients.\nOpen Scope N_scope.\n"

CLAUSES = {
    101: "mul_scalar of a valid share is exactly floor(share*x/MAX)", 102: "mul_scalar result exceeds x", 103: "new accepted a value above MAX",
    111: "checked_add", 112: "checked_sub", 113: "saturating_add", 114: "saturating_sub",
    121: "RewardShare::new accepts iff unit_share and economic_burn_rate are <= 10^9", 122: "RewardShare getters do not return what was packed",
    123: "RewardShare layout is not economic_burn_rate + 2^31*is_blocked",
    131: "checked_unit_share", 132: "is_blocked is not bit 31", 133: "economic_burn_rate is not the low 30 bits", 134: "checked_economic_burn_rate",
    135: "set_is_blocked touches other bits", 136: "set_economic_burn_rate touches other bits",
    141: "split_2z_amount failed on a valid leaf", 142: "burned amount below floor(max(community, economic) rate x share) [C03]",
    143: "burn + remainder differs from floor(unit_share x total / 10^9) [C02]", 144: "a recipient amount differs from floor(share x remainder / 10000) [C03]",
    145: "transfers exceed the remainder", 146: "transferred total differs from the sum of transfers", 147: "burn + transfers differs from the share amount (dust not burned) [C02/C03]",
    148: "final burn below floor(rate x share) [C03]", 149: "distribution over a valid table failed",
    151: "a valid recipient list was rejected [C16]", 152: "an invalid recipient list was accepted [C16]", 153: "active_iter differs from the accepted list [C16]",
    154: "stored table differs from the accepted list followed by zero entries [C16]",
}

def _nontrivial(line):
    """a case that exercises the property beyond a guard: a successful result with a non-zero amount / an accepted or
    specifically rejected table"""
    k = line.split(" ", 1)[0]
    if k == "CMul": return re.search(r"\(Some [1-9]", line) is not None
    if k == "CArith": return "(Some" in line
    if k == "CPack": return "(Some" in line
    if k == "CGetSet": return True
    if k == "CSplit": return re.search(r"\(Some \[[^\]]*[1-9]", line) is not None       # some recipient received > 0
    if k == "CRecip": return True
    return False

def eval_cases(lines, name="shares_replay"):
    """[(corr_shares c, mon_shares c)] for case lines as printed by `dzh direct-shares` ('None' = agrees / accepted)."""
    try:
        return C.coq_eval_sharded(name, PRE, lines, "fun c => (corr_shares c, mon_shares c)")
    finally:   # keep the .v case files (replayable), drop coqc's by-products (300 MB at the thorough tier)
        d = os.path.join(C.BUILD, "cases")
        for f in glob.glob(os.path.join(d, name + "_*.vo*")) + glob.glob(os.path.join(d, "." + name + "_*.aux")):
            try: os.remove(f)
            except OSError: pass

def run_pure(ctx, v, kinds=KINDS, n=None, tag=None):
    """kinds: subset of KINDS; n: total number of cases (default 750 per kind quick, 25000 per kind thorough);
    tag: name prefix of the case files under build/cases (pass the property id so concurrent checks do not collide)."""
    kinds = [k for k in KINDS if k in set(kinds)]
    assert kinds, "no kinds"
    if n is None:
        per = 750 if ctx["tier"] == "quick" else 25000
        n = per * len(kinds)
    rc, out = C.sh([C.DZH, "direct-shares", str(ctx["seed"]), str(n), ",".join(kinds)], timeout=1200)
    if rc != 0:
        v.break_("harness direct-shares failed", {"log": out[-2000:]}); return {}
    lines = [l for l in out.splitlines() if l.startswith("C")]
    stats = [l for l in out.splitlines() if l.startswith("#stats")]
    res = eval_cases(lines, "%s_shares_%s" % (tag or "pure", "_".join(kinds)))
    corr_bad = [(i, r[0]) for i, r in enumerate(res) if r[0] != "None"]
    mon_bad = [(i, r[1]) for i, r in enumerate(res) if r[1] != "None"]
    for i, d in mon_bad[:5]:
        cl = d[1] if isinstance(d, tuple) else d
        v.fail_input("shares monitor clause %s violated by the implementation: %s" % (cl, CLAUSES.get(cl, "?")),
                     {"family": "direct-shares", "kinds": kinds, "case": lines[i], "monitor": "mon_shares", "clause": cl,
                      "clause_text": CLAUSES.get(cl, "?")}, finding_key=None)
    if corr_bad and not mon_bad:
        i, d = corr_bad[0]
        v.break_("correspondence corr_shares (Shares.v/Recipients.v vs the revenue-distribution crate) diverges on case %d (%s)" % (i, lines[i].split(" ", 1)[0]),
                 {"family": "direct-shares", "kinds": kinds, "case": lines[i], "model_expected": str(d)[:4000]})
    distinct = set(lines)
    per_kind, per_kind_nt = {}, {}
    for l in distinct:
        k = l.split(" ", 1)[0]
        per_kind[k] = per_kind.get(k, 0) + 1
        if _nontrivial(l): per_kind_nt[k] = per_kind_nt.get(k, 0) + 1
    accepted = sum(1 for l in distinct if l.startswith("CRecip") and l.endswith("))"))
    split_full = sum(1 for l in distinct if l.startswith("CSplit") and not l.endswith("None"))   # split, amounts and final burn all produced
    return {"evaluations": len(lines), "distinct_nontrivial": sum(per_kind_nt.values()),
            "rule": "seeded boundary-dense inputs (0, 1, MAX-1, MAX, MAX+1, powers of two, u64::MAX, overflowing sums; recipient lists of 0..11 entries: "
                    "compositions of 10000, off by one, zero share, zero key, duplicates, shares above 10000, u16-wrapping totals) through the real crate API; "
                    "non-trivial = distinct case with a successful non-zero amount (mul/split), a packed value (pack) or any table decision (recipients)",
            "kinds": kinds, "distinct_cases": len(distinct), "distinct_per_kind": per_kind, "distinct_nontrivial_per_kind": per_kind_nt,
            "recipient_lists_accepted": accepted, "splits_with_all_amounts": split_full, "harness_stats": stats[0] if stats else "",
            "traces_validated_against_impl": len(lines), "correspondence_disagreements": len(corr_bad), "monitor_rejections": len(mon_bad),
            "samples": [l[:600] for l in lines[:4]]}
