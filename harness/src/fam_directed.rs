//! Directed (corpus) scenarios: the minimal histories behind recorded findings and boundary cases that random walks
//! do not reach (amounts at the u64 boundary, a misbehaving swap program).  Run first by the checks that own them.
use crate::fam_rd::{bootstrap, G};
use crate::ixb::{Leaf, RdSetting};
use crate::keys::{b, K};
use crate::rng::Rng;
use crate::scen::tx;
use crate::sim::{Op, Sim};
use std::future::Future;
use std::pin::Pin;

pub fn scenario(sim: Sim, rng: Rng, len: usize) -> Pin<Box<dyn Future<Output = Sim>>> { Box::pin(run(sim, rng, len)) }

async fn open_epoch(s: &mut Sim, g: &mut G) -> u64 {
    g.clock += g.init_grace * 60; s.op(Op::SetClock(g.clock)).await;
    let e = g.eps.len() as u64;
    let ix = s.rd_initialize_distribution(&g.debt_acc, &g.payer, e);
    s.op(tx(vec![ix])).await;
    g.eps.push(crate::fam_rd::Ep { e, ..Default::default() });
    g.clock += g.calc_grace * 60; s.op(Op::SetClock(g.clock)).await;
    e
}

async fn run(mut s: Sim, mut rng: Rng, _len: usize) -> Sim {
    let which = ((s.n >> 32) - 1) % 4;   // history id: consecutive histories run the four scripts
    let mut g = bootstrap(&mut s, &mut rng).await;
    // make the configuration deterministic where the scripts depend on it
    for st in [RdSetting::DebtAccountant(g.debt_acc.clone()), RdSetting::RewardsAccountant(g.rew_acc.clone()), RdSetting::ContributorManager(g.cmgr.clone()),
               RdSetting::SwapProgram(K::SwapMock), RdSetting::FeeParams(500, 0, 100, 0, 1), RdSetting::CalcGrace(1), RdSetting::InitGrace(1),
               RdSetting::BurnRate(900_000_000, 1, 3, Some(100_000_000)), RdSetting::Paused(false), RdSetting::FeatureActivation(1),
               RdSetting::MinEpochs(1), RdSetting::RelayLamports(5001)] {
        let ix = s.rd_configure(&g.admin, st); s.op(tx(vec![ix])).await;
    }
    g.min_epochs = 1; g.calc_grace = 1; g.init_grace = 1;
    if g.recips[0].is_empty() { let rec = vec![(K::User(300), 10_000u16)]; s.reg_ata(&K::User(300));
        let ix = s.rd_configure_contributor_recipients(&g.mgrs[0].clone(), &g.svcs[0].clone(), &rec); s.op(tx(vec![ix])).await; g.recips[0] = rec; }
    match which {
        0 => { // C10: uncollectible += amount at the u64 boundary
            let e = open_epoch(&mut s, &mut g).await;
            let t = s.def_tree(0, vec![Leaf::Debt { node: g.nodes[6].clone(), amount: 5 }, Leaf::Debt { node: g.nodes[7].clone(), amount: u64::MAX - 2 }]);
            let ix = s.rd_configure_debt(&g.debt_acc, e, 2, 10, t.root); s.op(tx(vec![ix])).await;
            let ix = s.rd_finalize_debt(&g.debt_acc, e, &g.payer); s.op(tx(vec![ix])).await;
            let ix = s.rd_enable_write_off(e, &g.payer); s.op(tx(vec![ix])).await;
            let p0 = s.proof(&t, 0).unwrap(); let p1 = s.proof(&t, 1).unwrap();
            let ix = s.rd_write_off(&g.debt_acc, e, &g.nodes[6].clone(), e, 5, &p0); s.op(tx(vec![ix])).await;
            let ix = s.rd_write_off(&g.debt_acc, e, &g.nodes[7].clone(), e, u64::MAX - 2, &p1); s.op(tx(vec![ix])).await;
        }
        1 => { // C10: the validator's lifetime written-off total at the u64 boundary (two epochs, same validator)
            let e0 = open_epoch(&mut s, &mut g).await;
            let e1 = open_epoch(&mut s, &mut g).await;
            for (e, amt) in [(e0, u64::MAX - 2), (e1, 5u64)] {
                let t = s.def_tree(0, vec![Leaf::Debt { node: g.nodes[6].clone(), amount: amt }]);
                let ix = s.rd_configure_debt(&g.debt_acc, e, 1, u64::MAX, t.root); s.op(tx(vec![ix])).await;
                let ix = s.rd_finalize_debt(&g.debt_acc, e, &g.payer); s.op(tx(vec![ix])).await;
                let ix = s.rd_enable_write_off(e, &g.payer); s.op(tx(vec![ix])).await;
                let p = s.proof(&t, 0).unwrap();
                let ix = s.rd_write_off(&g.debt_acc, e, &g.nodes[6].clone(), e, amt, &p); s.op(tx(vec![ix])).await;
            }
        }
        2 => { // C05: a swap program that replies with more 2Z than is tracked, the difference donated to the swap destination
            let rogue = K::Rogue(1);
            let ix = s.rd_configure(&g.admin, RdSetting::SwapProgram(rogue.clone())); s.op(tx(vec![ix])).await;
            let e = open_epoch(&mut s, &mut g).await;
            let debt = 1_000_000u64;
            let t = s.def_tree(0, vec![Leaf::Debt { node: g.nodes[0].clone(), amount: debt }]);
            let ix = s.rd_configure_debt(&g.debt_acc, e, 1, debt, t.root); s.op(tx(vec![ix])).await;
            let ix = s.rd_finalize_debt(&g.debt_acc, e, &g.payer); s.op(tx(vec![ix])).await;
            s.op(Op::Airdrop(K::RdDeposit(b(&g.nodes[0])), debt)).await;
            let p = s.proof(&t, 0).unwrap();
            let ix = s.rd_pay(e, &g.nodes[0].clone(), debt, &p); s.op(tx(vec![ix])).await;
            let rt = s.def_tree(1, vec![Leaf::Reward { contributor: g.svcs[0].clone(), unit_share: 1_000_000_000, packed: 0 }]);
            let ix = s.rd_configure_rewards(&g.rew_acc, e, 1, rt.root); s.op(tx(vec![ix])).await;
            let _ = open_epoch(&mut s, &mut g).await;
            let ix = s.rd_finalize_rewards(&g.payer, e); s.op(tx(vec![ix])).await;
            // the rogue swap program buys the SOL with 500 2Z (transfer_checked + WithdrawSol signed by its own authority)
            let src = K::Ata(b(&g.buyer), b(&K::Mint));
            let ix = s.rogue_buy(1, &src, &g.buyer, &g.users[8], 500, debt); s.op(tx(vec![ix])).await;
            // a third party donates 300 2Z straight into the swap destination
            let ix = s.tok_transfer(&src, &K::Tok2z(b(&K::RdSwapAuth)), &g.buyer, 300); s.op(tx(vec![ix])).await;
            // the scripted reply: (debt, 800, 1)
            let script = K::User(60);
            let mut data = vec![1u8]; data.extend_from_slice(&debt.to_le_bytes()); data.extend_from_slice(&800u64.to_le_bytes()); data.extend_from_slice(&1u64.to_le_bytes());
            s.op(Op::ForgeRaw { to: script.clone(), owner: rogue.clone(), lamports: 2_000_000, data }).await;
            let ix = s.rd_sweep(e, &rogue, &script); s.op(tx(vec![ix])).await;
            // and the other malformed replies of the property's quantifier: none, short, wrong SOL amount
            let e2 = g.eps.len() as u64 - 1;
            let _ = e2;
        }
        _ => { // C05: malformed replies (no return data, wrong length, wrong SOL amount, honest amount)
            let rogue = K::Rogue(2);
            let ix = s.rd_configure(&g.admin, RdSetting::SwapProgram(rogue.clone())); s.op(tx(vec![ix])).await;
            let e = open_epoch(&mut s, &mut g).await;
            let debt = 777_000u64;
            let t = s.def_tree(0, vec![Leaf::Debt { node: g.nodes[1].clone(), amount: debt }]);
            let ix = s.rd_configure_debt(&g.debt_acc, e, 1, debt, t.root); s.op(tx(vec![ix])).await;
            let ix = s.rd_finalize_debt(&g.debt_acc, e, &g.payer); s.op(tx(vec![ix])).await;
            s.op(Op::Airdrop(K::RdDeposit(b(&g.nodes[1])), debt)).await;
            let p = s.proof(&t, 0).unwrap();
            let ix = s.rd_pay(e, &g.nodes[1].clone(), debt, &p); s.op(tx(vec![ix])).await;
            let rt = s.def_tree(1, vec![Leaf::Reward { contributor: g.svcs[0].clone(), unit_share: 1_000_000_000, packed: 0 }]);
            let ix = s.rd_configure_rewards(&g.rew_acc, e, 1, rt.root); s.op(tx(vec![ix])).await;
            let _ = open_epoch(&mut s, &mut g).await;
            let ix = s.rd_finalize_rewards(&g.payer, e); s.op(tx(vec![ix])).await;
            let src = K::Ata(b(&g.buyer), b(&K::Mint));
            let ix = s.rogue_buy(2, &src, &g.buyer, &g.users[8], 900, debt); s.op(tx(vec![ix])).await;
            let script = K::User(61);
            let reply = |a: u64, z: u64| { let mut d = vec![1u8]; d.extend_from_slice(&a.to_le_bytes()); d.extend_from_slice(&z.to_le_bytes()); d.extend_from_slice(&1u64.to_le_bytes()); d };
            for data in [vec![0u8; 4], vec![2u8, 23, 0], vec![2u8, 25, 0], reply(debt + 1, 900), reply(debt, 901), reply(debt, 900)] {
                s.op(Op::ForgeRaw { to: script.clone(), owner: rogue.clone(), lamports: 2_000_000, data }).await;
                let ix = s.rd_sweep(e, &rogue, &script); s.op(tx(vec![ix])).await;
            }
        }
    }
    s
}
