//! Directed (corpus) scenarios: the minimal histories behind recorded findings and boundary cases that random walks
//! do not reach (amounts at the u64 boundary, a misbehaving swap program).  Run first by the checks that own them.
use crate::fam_rd::{bootstrap_with, G};
use crate::ixb::{Leaf, RdSetting};
use crate::keys::{b, K};
use crate::rng::Rng;
use crate::scen::tx;
use crate::sim::{Op, Sim};
use std::future::Future;
use std::pin::Pin;

pub fn scenario(sim: Sim, rng: Rng, len: usize) -> Pin<Box<dyn Future<Output = Sim>>> { Box::pin(run(sim, rng, len)) }

async fn open_epoch(s: &mut Sim, g: &mut G) -> u64 {
    g.clock += g.init_grace * 60; s.op(Op::SetClock(g.clock)).await;
    let e = g.eps.len() as u64;
    let ix = s.rd_initialize_distribution(&g.debt_acc, &g.payer, e);
    s.op(tx(vec![ix])).await;
    g.eps.push(crate::fam_rd::Ep { e, ..Default::default() });
    g.clock += g.calc_grace * 60; s.op(Op::SetClock(g.clock)).await;
    e
}

async fn run(mut s: Sim, mut rng: Rng, _len: usize) -> Sim {
    let which = ((s.n >> 32) - 1) % 23;   // history id: consecutive histories run the scripts in turn
    if (7..12).contains(&which) { return unconfigured(s, rng, which).await; }
    if which == 17 { return feature_unconfigured(s, rng).await; }
    if which == 22 { return accountant_unappointed(s, rng).await; }
    let mut g = bootstrap_with(&mut s, &mut rng, None).await;
    // make the configuration deterministic where the scripts depend on it
    for st in [RdSetting::DebtAccountant(g.debt_acc.clone()), RdSetting::RewardsAccountant(g.rew_acc.clone()), RdSetting::ContributorManager(g.cmgr.clone()),
               RdSetting::SwapProgram(K::SwapMock), RdSetting::FeeParams(500, 0, 100, 0, 1), RdSetting::CalcGrace(1), RdSetting::InitGrace(1),
               RdSetting::BurnRate(900_000_000, 1, 3, Some(100_000_000)), RdSetting::Paused(false), RdSetting::FeatureActivation(1),
               RdSetting::MinEpochs(1), RdSetting::RelayLamports(5001)] {
        let ix = s.rd_configure(&g.admin, st); s.op(tx(vec![ix])).await;
    }
    g.min_epochs = 1; g.calc_grace = 1; g.init_grace = 1;
    if g.recips[0].is_empty() { let rec = vec![(K::User(300), 10_000u16)]; s.reg_ata(&K::User(300));
        let ix = s.rd_configure_contributor_recipients(&g.mgrs[0].clone(), &g.svcs[0].clone(), &rec); s.op(tx(vec![ix])).await; g.recips[0] = rec; }
    match which {
        0 => { // C10: uncollectible += amount at the u64 boundary
            let e = open_epoch(&mut s, &mut g).await;
            let t = s.def_tree(0, vec![Leaf::Debt { node: g.nodes[6].clone(), amount: 5 }, Leaf::Debt { node: g.nodes[7].clone(), amount: u64::MAX - 2 }]);
            let ix = s.rd_configure_debt(&g.debt_acc, e, 2, 10, t.root); s.op(tx(vec![ix])).await;
            let ix = s.rd_finalize_debt(&g.debt_acc, e, &g.payer); s.op(tx(vec![ix])).await;
            let ix = s.rd_enable_write_off(e, &g.payer); s.op(tx(vec![ix])).await;
            let p0 = s.proof(&t, 0).unwrap(); let p1 = s.proof(&t, 1).unwrap();
            // C10 / C07: a config look-alike under another owner naming an outsider as debt accountant; the outsider signs the write-off
            { let (outsider, fake) = (g.users[11].clone(), K::User(705));
              s.forge_rd_config_ex(&outsider, &fake, &K::Rogue(2), true).await;
              let ix = s.rd_write_off(&outsider, e, &g.nodes[6].clone(), e, 5, &p0).with_key(0, &fake); s.op(tx(vec![ix])).await; }
            let ix = s.rd_write_off(&g.debt_acc, e, &g.nodes[6].clone(), e, 5, &p0); s.op(tx(vec![ix])).await;
            let ix = s.rd_write_off(&g.debt_acc, e, &g.nodes[7].clone(), e, u64::MAX - 2, &p1); s.op(tx(vec![ix])).await;
        }
        1 => { // C10: the validator's lifetime written-off total at the u64 boundary (two epochs, same validator)
            let e0 = open_epoch(&mut s, &mut g).await;
            let e1 = open_epoch(&mut s, &mut g).await;
            for (e, amt) in [(e0, u64::MAX - 2), (e1, 5u64)] {
                let t = s.def_tree(0, vec![Leaf::Debt { node: g.nodes[6].clone(), amount: amt }]);
                let ix = s.rd_configure_debt(&g.debt_acc, e, 1, u64::MAX, t.root); s.op(tx(vec![ix])).await;
                let ix = s.rd_finalize_debt(&g.debt_acc, e, &g.payer); s.op(tx(vec![ix])).await;
                let ix = s.rd_enable_write_off(e, &g.payer); s.op(tx(vec![ix])).await;
                let p = s.proof(&t, 0).unwrap();
                let ix = s.rd_write_off(&g.debt_acc, e, &g.nodes[6].clone(), e, amt, &p); s.op(tx(vec![ix])).await;
            }
        }
        2 => { // C05: a swap program that replies with more 2Z than is tracked, the difference donated to the swap destination
            let rogue = K::Rogue(1);
            let ix = s.rd_configure(&g.admin, RdSetting::SwapProgram(rogue.clone())); s.op(tx(vec![ix])).await;
            let e = open_epoch(&mut s, &mut g).await;
            let debt = 1_000_000u64;
            let t = s.def_tree(0, vec![Leaf::Debt { node: g.nodes[0].clone(), amount: debt }]);
            let ix = s.rd_configure_debt(&g.debt_acc, e, 1, debt, t.root); s.op(tx(vec![ix])).await;
            let ix = s.rd_finalize_debt(&g.debt_acc, e, &g.payer); s.op(tx(vec![ix])).await;
            s.op(Op::Airdrop(K::RdDeposit(b(&g.nodes[0])), debt)).await;
            let p = s.proof(&t, 0).unwrap();
            let ix = s.rd_pay(e, &g.nodes[0].clone(), debt, &p); s.op(tx(vec![ix])).await;
            let rt = s.def_tree(1, vec![Leaf::Reward { contributor: g.svcs[0].clone(), unit_share: 1_000_000_000, packed: 0 }]);
            let ix = s.rd_configure_rewards(&g.rew_acc, e, 1, rt.root); s.op(tx(vec![ix])).await;
            let _ = open_epoch(&mut s, &mut g).await;
            let ix = s.rd_finalize_rewards(&g.payer, e); s.op(tx(vec![ix])).await;
            // the rogue swap program buys the SOL with 500 2Z (transfer_checked + WithdrawSol signed by its own authority)
            let src = K::Ata(b(&g.buyer), b(&K::Mint));
            // C06: the same purchase with the TransferChecked-shaped instruction sent to a look-alike program instead of SPL Token (no 2Z
            // moves): the withdrawal must be refused because its sibling is not an SPL Token instruction
            { let ix = s.rogue_buy(1, &src, &g.buyer, &g.users[8], 500, debt).with_key(8, &K::Rogue(2)); s.op(tx(vec![ix])).await; }
            // C06: the same purchase with the 2Z paid somewhere else (right mint, wrong destination: the journal's / the reserve's own
            // 2Z account, the buyer's own account), and with a short payment announced; each must be refused
            for wrong in [K::Tok2z(b(&K::RdJournal)), K::Tok2z(b(&K::RdConfig)), src.clone()] {
                let ix = s.rogue_buy(1, &src, &g.buyer, &g.users[8], 500, debt).with_key(2, &wrong); s.op(tx(vec![ix])).await;
            }
            // C06: the withdrawal attempted from the top level: the withdraw authority is a derived address and cannot sign, so it is named
            // unsigned, alone and right after a genuine top-level TransferChecked of one unit of 2Z into the swap destination
            let swap_dest = K::Tok2z(b(&K::RdSwapAuth));
            let w = s.rd_withdraw_sol(&rogue, &g.users[8], debt).with_signer(1, false); s.op(tx(vec![w])).await;
            let t = s.tok_transfer_checked(&src, &K::Mint, &swap_dest, &g.buyer, 1, doublezero_revenue_distribution::DOUBLEZERO_MINT_DECIMALS);
            let w = s.rd_withdraw_sol(&rogue, &g.users[8], debt).with_signer(1, false); s.op(tx(vec![t, w])).await;
            // C06 / C08: while the program is paused, the purchase offered with an un-paused config look-alike under another owner: refused
            { let fake = K::User(706);
              let pz = s.rd_configure(&g.admin, RdSetting::Paused(true)); s.op(tx(vec![pz])).await;
              s.forge_rd_config_ex(&g.users[11].clone(), &fake, &K::Passport, true).await;
              let ix = s.rogue_buy(1, &src, &g.buyer, &g.users[8], 500, debt).with_key(4, &fake); s.op(tx(vec![ix])).await;
              let up = s.rd_configure(&g.admin, RdSetting::Paused(false)); s.op(tx(vec![up])).await; }
            // C06: plain lamports donated to the journal are not tracked SOL: a purchase for more than the tracked balance is refused
            s.op(Op::Airdrop(K::RdJournal, 700_000)).await;
            let ix = s.rogue_buy(1, &src, &g.buyer, &g.users[8], 500, debt + 500_000); s.op(tx(vec![ix])).await;
            let ix = s.rogue_buy(1, &src, &g.buyer, &g.users[8], 500, debt); s.op(tx(vec![ix])).await;
            // a third party donates 300 2Z straight into the swap destination
            let ix = s.tok_transfer(&src, &K::Tok2z(b(&K::RdSwapAuth)), &g.buyer, 300); s.op(tx(vec![ix])).await;
            // the scripted reply: (debt, 800, 1)
            let script = K::User(60);
            let mut data = vec![1u8]; data.extend_from_slice(&debt.to_le_bytes()); data.extend_from_slice(&800u64.to_le_bytes()); data.extend_from_slice(&1u64.to_le_bytes());
            s.op(Op::ForgeRaw { to: script.clone(), owner: rogue.clone(), lamports: 2_000_000, data }).await;
            // C05 / C09: the sweep routed to a swap program that is NOT the configured one (its own accounts, a well-formed reply)
            let (other, script2) = (K::Rogue(2), K::User(62));
            let mut data2 = vec![1u8]; data2.extend_from_slice(&debt.to_le_bytes()); data2.extend_from_slice(&400u64.to_le_bytes()); data2.extend_from_slice(&1u64.to_le_bytes());
            s.op(Op::ForgeRaw { to: script2.clone(), owner: other.clone(), lamports: 2_000_000, data: data2 }).await;
            let ix = s.rd_sweep(e, &other, &script2); s.op(tx(vec![ix])).await;
            let ix = s.rd_sweep(e, &rogue, &script); s.op(tx(vec![ix])).await;
            // and the other malformed replies of the property's quantifier: none, short, wrong SOL amount
            let e2 = g.eps.len() as u64 - 1;
            let _ = e2;
        }
        4 => { // C05 / C10: a distribution swept while one leaf is still unsettled (the pool is covered by another epoch's payment); afterwards
               // its uncollectible debt must not change: write-off into the swept epoch refused, into the later epoch allowed
            let e0 = open_epoch(&mut s, &mut g).await;
            let e1 = open_epoch(&mut s, &mut g).await;
            let (a, bq, c) = (700_000u64, 300_000u64, 500_000u64);
            let t0 = s.def_tree(0, vec![Leaf::Debt { node: g.nodes[0].clone(), amount: a }, Leaf::Debt { node: g.nodes[6].clone(), amount: bq }]);
            let t1 = s.def_tree(0, vec![Leaf::Debt { node: g.nodes[1].clone(), amount: c }]);
            for (e, t, total) in [(e0, &t0, a + bq), (e1, &t1, c)] {
                let ix = s.rd_configure_debt(&g.debt_acc, e, t.leaves.len() as u32, total, t.root); s.op(tx(vec![ix])).await;
                let ix = s.rd_finalize_debt(&g.debt_acc, e, &g.payer); s.op(tx(vec![ix])).await;
                let ix = s.rd_enable_write_off(e, &g.payer); s.op(tx(vec![ix])).await;
            }
            for (e, t, idx, node, amt) in [(e0, &t0, 0u32, g.nodes[0].clone(), a), (e1, &t1, 0u32, g.nodes[1].clone(), c)] {
                s.op(Op::Airdrop(K::RdDeposit(b(&node)), amt)).await;
                let p = s.proof(t, idx).unwrap(); let ix = s.rd_pay(e, &node, amt, &p); s.op(tx(vec![ix])).await;
            }
            let rt = s.def_tree(1, vec![Leaf::Reward { contributor: g.svcs[0].clone(), unit_share: 1_000_000_000, packed: 0 }]);
            let ix = s.rd_configure_rewards(&g.rew_acc, e0, 1, rt.root); s.op(tx(vec![ix])).await;
            let ix = s.rd_finalize_rewards(&g.payer, e0); s.op(tx(vec![ix])).await;
            let ix = s.sw_buy(&g.fills, &K::Ata(b(&g.buyer), b(&K::Mint)), &g.buyer, &g.users[8], 123_456, a + bq); s.op(tx(vec![ix])).await;
            let ix = s.rd_sweep(e0, &K::SwapMock, &g.fills); s.op(tx(vec![ix])).await;
            let p = s.proof(&t0, 1).unwrap();
            let ix = s.rd_write_off(&g.debt_acc, e0, &g.nodes[6].clone(), e0, bq, &p); s.op(tx(vec![ix])).await;     // target already swept: refused
            let ix = s.rd_write_off(&g.debt_acc, e0, &g.nodes[6].clone(), e1, bq, &p); s.op(tx(vec![ix])).await;     // later epoch: allowed
            let ix = s.rd_write_off(&g.debt_acc, e0, &g.nodes[6].clone(), e1, bq, &p); s.op(tx(vec![ix])).await;     // replay: refused
        }
        5 => { // C01 / C02: leaves at the byte boundaries of the bitmaps (7, 8, 15, 16): settle, then the same leaf again
            let e = open_epoch(&mut s, &mut g).await;
            let leaves: Vec<Leaf> = (0..17).map(|i| Leaf::Debt { node: g.nodes[i % 6].clone(), amount: 1_000 + i as u64 }).collect();
            let total: u64 = (0..17).map(|i| 1_000 + i as u64).sum();
            let t = s.def_tree(0, leaves.clone());
            let ix = s.rd_configure_debt(&g.debt_acc, e, 17, total, t.root); s.op(tx(vec![ix])).await;
            let ix = s.rd_finalize_debt(&g.debt_acc, e, &g.payer); s.op(tx(vec![ix])).await;
            // C01: a payment of amount 0 carrying the genuine proof of a non-zero leaf (leaf 9): the leaf hash does not match, refused,
            // and the leaf stays payable
            { let Leaf::Debt { node, .. } = leaves[9].clone() else { unreachable!() };
              let p = s.proof(&t, 9).unwrap(); let ix = s.rd_pay(e, &node, 0, &p); s.op(tx(vec![ix])).await; }
            for idx in [7u32, 8, 15, 16, 0, 6, 9] {
                let Leaf::Debt { node, amount } = leaves[idx as usize].clone() else { unreachable!() };
                s.op(Op::Airdrop(K::RdDeposit(b(&node)), 2 * amount)).await;
                let p = s.proof(&t, idx).unwrap();
                let ix = s.rd_pay(e, &node, amount, &p); s.op(tx(vec![ix.clone()])).await; s.op(tx(vec![ix])).await;
            }
            for idx in (0..17u32).filter(|i| ![7u32, 8, 15, 16, 0, 6, 9].contains(i)) {   // (15 was written off)
                let Leaf::Debt { node, amount } = leaves[idx as usize].clone() else { unreachable!() };
                s.op(Op::Airdrop(K::RdDeposit(b(&node)), amount)).await;
                let p = s.proof(&t, idx).unwrap(); let ix = s.rd_pay(e, &node, amount, &p); s.op(tx(vec![ix])).await;
            }
            let shares = [62_500_000u32; 16];
            let rl: Vec<Leaf> = (0..16).map(|i| Leaf::Reward { contributor: g.svcs[i % g.svcs.len()].clone(), unit_share: shares[i], packed: 0 }).collect();
            let rt = s.def_tree(1, rl.clone());
            let ix = s.rd_configure_rewards(&g.rew_acc, e, 16, rt.root); s.op(tx(vec![ix])).await;
            let _ = open_epoch(&mut s, &mut g).await;
            let ix = s.rd_finalize_rewards(&g.payer, e); s.op(tx(vec![ix])).await;
            let ix = s.sw_buy(&g.fills, &K::Ata(b(&g.buyer), b(&K::Mint)), &g.buyer, &g.users[8], 16_000_000, total); s.op(tx(vec![ix])).await;
            let ix = s.rd_sweep(e, &K::SwapMock, &g.fills); s.op(tx(vec![ix])).await;
            for idx in [7u32, 8, 15, 0] {
                let Leaf::Reward { contributor, unit_share, packed } = rl[idx as usize].clone() else { unreachable!() };
                let ci = g.svcs.iter().position(|x| *x == contributor).unwrap();
                let recs: Vec<K> = g.recips[ci].iter().map(|x| x.0.clone()).collect();
                for (r, _) in g.recips[ci].clone() { s.reg_ata(&r); s.op(Op::CreateAta { payer: g.payer.clone(), owner: r }).await; }
                let p = s.proof(&rt, idx).unwrap();
                let ix = s.rd_distribute(e, &contributor, &g.relayer, &recs, unit_share, packed, &p); s.op(tx(vec![ix.clone()])).await; s.op(tx(vec![ix])).await;
            }
            // C10 (kept at the end so that the steps above do not depend on it): a second and third epoch whose 16 leaves all belong to a
            // validator that never funds its deposit: leaves 7 and 15 (bit 7 of each bitmap byte) written off twice - the second attempt is
            // refused; then a leaf larger than the absorbing epoch's remaining collectible debt (700 into a total of 500): refused
            { let poor = g.nodes[6].clone();
              let ea = open_epoch(&mut s, &mut g).await; let eb = open_epoch(&mut s, &mut g).await;
              let la: Vec<Leaf> = (0..16).map(|i| Leaf::Debt { node: poor.clone(), amount: if i == 3 { 700 } else { 10 + i as u64 } }).collect();
              let ta = s.def_tree(0, la.clone()); let tot_a: u64 = la.iter().map(|l| if let Leaf::Debt { amount, .. } = l { *amount } else { 0 }).sum();
              let tb = s.def_tree(0, vec![Leaf::Debt { node: g.nodes[1].clone(), amount: 500 }]);
              for (e2, t2, n2, tot2) in [(ea, &ta, 16u32, tot_a), (eb, &tb, 1, 500)] {
                  let ix = s.rd_configure_debt(&g.debt_acc, e2, n2, tot2, t2.root); s.op(tx(vec![ix])).await;
                  let ix = s.rd_finalize_debt(&g.debt_acc, e2, &g.payer); s.op(tx(vec![ix])).await; }
              let ix = s.rd_enable_write_off(ea, &g.payer); s.op(tx(vec![ix])).await;
              for idx in [7u32, 15] { let Leaf::Debt { amount, .. } = la[idx as usize].clone() else { unreachable!() };
                  let p = s.proof(&ta, idx).unwrap();
                  for _ in 0..2 { let ix = s.rd_write_off(&g.debt_acc, ea, &poor, ea, amount, &p); s.op(tx(vec![ix])).await; } }
              let p3 = s.proof(&ta, 3).unwrap();
              let ix = s.rd_write_off(&g.debt_acc, ea, &poor, eb, 700, &p3); s.op(tx(vec![ix])).await;
              // the deposit now holds exactly its rent plus leaf 5's amount (15): the debt is payable, so it cannot be written off;
              // one lamport less and it can
              let p5 = s.proof(&ta, 5).unwrap();
              s.op(Op::Airdrop(K::RdDeposit(b(&poor)), 15)).await;
              let ix = s.rd_write_off(&g.debt_acc, ea, &poor, ea, 15, &p5); s.op(tx(vec![ix])).await;
              let ix = s.rd_pay(ea, &poor, 15, &p5); s.op(tx(vec![ix])).await; }
        }
        6 => { // C15 / C04: grace periods whose second count exceeds 16 bits: creation pacing and the calculation gate at the boundaries
            for st in [RdSetting::InitGrace(2880), RdSetting::CalcGrace(1440)] { let ix = s.rd_configure(&g.admin, st); s.op(tx(vec![ix])).await; }
            g.init_grace = 2880; g.calc_grace = 1440;
            g.clock += 172_800; s.op(Op::SetClock(g.clock)).await;
            let ix = s.rd_initialize_distribution(&g.debt_acc, &g.payer, 0); s.op(tx(vec![ix])).await;
            let t0 = g.clock;
            let t = s.def_tree(0, vec![Leaf::Debt { node: g.nodes[0].clone(), amount: 9 }]);
            for dt in [65_535u64, 65_536, 86_399, 86_400] {
                s.op(Op::SetClock(t0 + dt)).await;
                let ix = s.rd_configure_debt(&g.debt_acc, 0, 1, 9, t.root); s.op(tx(vec![ix])).await;
                let ix = s.rd_initialize_distribution(&g.debt_acc, &g.payer, 1); s.op(tx(vec![ix])).await;
            }
            for dt in [131_071u64, 172_799, 172_800] {
                s.op(Op::SetClock(t0 + dt)).await;
                let ix = s.rd_initialize_distribution(&g.debt_acc, &g.payer, 1); s.op(tx(vec![ix])).await;
            }
        }
        12 => { // C12 / C08 / C16: the null-root matrix (debt, written-off, direct 2Z, root), finalisation before debt is final,
                // a zero-debt sweep while paused, recipient tables whose share total wraps 16 bits
            let ja = K::Ata(b(&K::RdJournal), b(&K::Mint));
            let mut eps = vec![];
            for prepaid in [0u64, 5_000, 0, 0, 7_000, 9_000, 0, 0] {
                if prepaid > 0 { s.op(Op::MintTo(ja.clone(), prepaid)).await; }
                eps.push(open_epoch(&mut s, &mut g).await);
            }
            let poor = g.nodes[6].clone();
            // (debt leaves, write them off?, root posted?)
            let plan: Vec<(Vec<Leaf>, bool, bool)> = vec![
                (vec![], false, false),                                                            // 0: nothing at all, null root: accepted
                (vec![], false, false),                                                            // 1: direct 2Z, null root: refused
                (vec![Leaf::Debt { node: g.nodes[0].clone(), amount: 700 }], false, false),        // 2: collectible debt, null root: refused
                (vec![Leaf::Debt { node: poor.clone(), amount: 700 }], true, false),               // 3: debt fully written off, null root: accepted
                (vec![Leaf::Debt { node: poor.clone(), amount: 700 }], true, false),               // 4: written off but direct 2Z held: refused
                (vec![], false, true),                                                             // 5: direct 2Z with a posted root: accepted
            ];
            // 6: rewards finalisation attempted before debt is finalised (nothing posted yet): refused, then debt can still be posted
            let ix = s.rd_finalize_rewards(&g.payer, eps[6]); s.op(tx(vec![ix])).await;
            for (i, (leaves, wo, root)) in plan.iter().enumerate() {
                let e = eps[i];
                let total: u64 = leaves.iter().map(|l| if let Leaf::Debt { amount, .. } = l { *amount } else { 0 }).sum();
                let t = s.def_tree(0, leaves.clone());
                let ix = s.rd_configure_debt(&g.debt_acc, e, leaves.len() as u32, total, t.root); s.op(tx(vec![ix])).await;
                let ix = s.rd_finalize_debt(&g.debt_acc, e, &g.payer); s.op(tx(vec![ix])).await;
                if *wo { let ix = s.rd_enable_write_off(e, &g.payer); s.op(tx(vec![ix])).await;
                         let p = s.proof(&t, 0).unwrap(); let ix = s.rd_write_off(&g.debt_acc, e, &poor, e, 700, &p); s.op(tx(vec![ix])).await; }
                if *root { let rt = s.def_tree(1, vec![Leaf::Reward { contributor: g.svcs[0].clone(), unit_share: 1_000_000_000, packed: 0 }]);
                           let ix = s.rd_configure_rewards(&g.rew_acc, e, 1, rt.root); s.op(tx(vec![ix])).await; }
                let ix = s.rd_finalize_rewards(&g.payer, e); s.op(tx(vec![ix])).await;
            }
            // C12 / C04: debt figures posted on epoch 0 (nothing at all, finalized with the null root) after everything is final: refused
            { let t9 = s.def_tree(0, vec![Leaf::Debt { node: g.nodes[0].clone(), amount: 100 }]);
              let ix = s.rd_configure_debt(&g.debt_acc, eps[0], 1, 100, t9.root); s.op(tx(vec![ix])).await; }
            // zero-debt sweep while paused: refused; after unpausing the same sweep succeeds
            let p1 = s.rd_configure(&g.admin, RdSetting::Paused(true)); s.op(tx(vec![p1])).await;
            let ix = s.rd_sweep(eps[0], &K::SwapMock, &g.fills); s.op(tx(vec![ix.clone()])).await;
            let p0 = s.rd_configure(&g.admin, RdSetting::Paused(false)); s.op(tx(vec![p0])).await;
            s.op(tx(vec![ix])).await;
            // share totals that wrap a u16 (75 536 = 65 536 + 10 000)
            let mgr = g.mgrs[1].clone(); let svc = g.svcs[1].clone();
            for rec in [vec![10_000u16, 10_000, 10_000, 10_000, 10_000, 10_000, 10_000, 5_536], vec![9_442u16; 8], vec![10_000u16, 10_000, 10_000, 10_000, 10_000, 10_000, 5_536]] {
                let l: Vec<(K, u16)> = rec.iter().enumerate().map(|(j, x)| (K::User(320 + j as u64), *x)).collect();
                let ix = s.rd_configure_contributor_recipients(&mgr, &svc, &l); s.op(tx(vec![ix])).await;
            }
        }
        19 => { // C12 / C10: one validator written off twice (epoch 0 into 1, epoch 1 into 2): each absorbing epoch books exactly the amount;
                // epoch 2 (total 300, 200 absorbed) still has 100 collectible, so its rewards cannot be finalized with the null root
            let (e0, e1, e2) = (open_epoch(&mut s, &mut g).await, open_epoch(&mut s, &mut g).await, open_epoch(&mut s, &mut g).await);
            let (poor, rich) = (g.nodes[6].clone(), g.nodes[0].clone());
            let t0 = s.def_tree(0, vec![Leaf::Debt { node: poor.clone(), amount: 100 }]);
            let t1 = s.def_tree(0, vec![Leaf::Debt { node: poor.clone(), amount: 200 }]);
            let t2 = s.def_tree(0, vec![Leaf::Debt { node: rich.clone(), amount: 300 }]);
            for (e, t, total) in [(e0, &t0, 100u64), (e1, &t1, 200), (e2, &t2, 300)] {
                let ix = s.rd_configure_debt(&g.debt_acc, e, 1, total, t.root); s.op(tx(vec![ix])).await;
                let ix = s.rd_finalize_debt(&g.debt_acc, e, &g.payer); s.op(tx(vec![ix])).await;
                let ix = s.rd_enable_write_off(e, &g.payer); s.op(tx(vec![ix])).await;
            }
            let p0 = s.proof(&t0, 0).unwrap(); let p1 = s.proof(&t1, 0).unwrap();
            let ix = s.rd_write_off(&g.debt_acc, e0, &poor, e1, 100, &p0); s.op(tx(vec![ix])).await;
            let ix = s.rd_write_off(&g.debt_acc, e1, &poor, e2, 200, &p1); s.op(tx(vec![ix])).await;
            let _ = open_epoch(&mut s, &mut g).await;
            let ix = s.rd_finalize_rewards(&g.payer, e2); s.op(tx(vec![ix])).await;          // null root, 100 still collectible: refused
            let rt = s.def_tree(1, vec![Leaf::Reward { contributor: g.svcs[0].clone(), unit_share: 1_000_000_000, packed: 0 }]);
            let ix = s.rd_configure_rewards(&g.rew_acc, e2, 1, rt.root); s.op(tx(vec![ix])).await;
            let ix = s.rd_finalize_rewards(&g.payer, e2); s.op(tx(vec![ix])).await;          // with a root: accepted
        }
        20 => { // C05: two epochs ready to be swept (no debt, direct 2Z): the later one first is refused, then both in order
            // C15 / C14: first the burn-rate schedule is changed through the update path (no initial rate): the change is in force afterwards
            let ix = s.rd_configure(&g.admin, RdSetting::BurnRate(950_000_000, 2, 4, None)); s.op(tx(vec![ix])).await;
            let ja = K::Ata(b(&K::RdJournal), b(&K::Mint));
            let mut eps = vec![];
            for amt in [4_000u64, 6_000] { s.op(Op::MintTo(ja.clone(), amt)).await; eps.push(open_epoch(&mut s, &mut g).await); }
            let rt = s.def_tree(1, vec![Leaf::Reward { contributor: g.svcs[0].clone(), unit_share: 1_000_000_000, packed: 0 }]);
            for &e in &eps {
                let t = s.def_tree(0, vec![]);
                let ix = s.rd_configure_debt(&g.debt_acc, e, 0, 0, t.root); s.op(tx(vec![ix])).await;
                let ix = s.rd_finalize_debt(&g.debt_acc, e, &g.payer); s.op(tx(vec![ix])).await;
                let ix = s.rd_configure_rewards(&g.rew_acc, e, 1, rt.root); s.op(tx(vec![ix])).await;
            }
            let _ = open_epoch(&mut s, &mut g).await;
            for &e in &eps { let ix = s.rd_finalize_rewards(&g.payer, e); s.op(tx(vec![ix])).await; }
            for e in [eps[1], eps[0], eps[0], eps[1]] { let ix = s.rd_sweep(e, &K::SwapMock, &g.fills); s.op(tx(vec![ix])).await; }
        }
        21 => { // C12 / C05: an epoch whose whole debt was written off finalizes with the null root; its sweep is a no-op even though the swapped
                // pool (fed by another epoch) and a matching fill would allow a purchase of exactly its total debt
            let (e0, e1) = (open_epoch(&mut s, &mut g).await, open_epoch(&mut s, &mut g).await);
            let (poor, rich) = (g.nodes[6].clone(), g.nodes[7].clone());   // `rich` holds exactly what it is given below
            let t0 = s.def_tree(0, vec![Leaf::Debt { node: poor.clone(), amount: 700 }]);
            let t1 = s.def_tree(0, vec![Leaf::Debt { node: rich.clone(), amount: 700 }]);
            for (e, t) in [(e0, &t0), (e1, &t1)] {
                let ix = s.rd_configure_debt(&g.debt_acc, e, 1, 700, t.root); s.op(tx(vec![ix])).await;
                let ix = s.rd_finalize_debt(&g.debt_acc, e, &g.payer); s.op(tx(vec![ix])).await;
            }
            let ix = s.rd_enable_write_off(e0, &g.payer); s.op(tx(vec![ix])).await;
            let p0 = s.proof(&t0, 0).unwrap(); let ix = s.rd_write_off(&g.debt_acc, e0, &poor, e0, 700, &p0); s.op(tx(vec![ix])).await;
            s.op(Op::Airdrop(K::RdDeposit(b(&rich)), 700)).await;
            let p1 = s.proof(&t1, 0).unwrap(); let ix = s.rd_pay(e1, &rich, 700, &p1); s.op(tx(vec![ix])).await;
            let _ = open_epoch(&mut s, &mut g).await;
            let ix = s.rd_finalize_rewards(&g.payer, e0); s.op(tx(vec![ix])).await;          // null root, nothing collectible: accepted
            let ix = s.sw_buy(&g.fills, &K::Ata(b(&g.buyer), b(&K::Mint)), &g.buyer, &g.users[8], 9_999, 700); s.op(tx(vec![ix])).await;
            let ix = s.rd_sweep(e0, &K::SwapMock, &g.fills); s.op(tx(vec![ix])).await;       // no-op: pool, registry and custody untouched
            // C12 / C01: a leaf that was paid cannot be written off afterwards (paid XOR written off), here with write-offs enabled on e1
            let ix = s.rd_enable_write_off(e1, &g.payer); s.op(tx(vec![ix])).await;
            let ix = s.rd_write_off(&g.debt_acc, e1, &rich, e1, 700, &p1); s.op(tx(vec![ix])).await;
            let ix = s.rd_finalize_rewards(&g.payer, e1); s.op(tx(vec![ix])).await;           // 700 collected and collectible, null root: refused
            // C12 / C04: debt figures re-posted on e0 after debt and rewards are final: refused
            let t9 = s.def_tree(0, vec![Leaf::Debt { node: rich.clone(), amount: 100 }]);
            let ix = s.rd_configure_debt(&g.debt_acc, e0, 1, 100, t9.root); s.op(tx(vec![ix])).await;
        }
        18 => { // C08 / C07: one operations wallet holds the admin role AND the debt-accountant, rewards-accountant and contributor-manager
                // roles: while paused the admin may administer, but the role-gated instructions it signs are still refused
            let admin = g.admin.clone();
            for st in [RdSetting::DebtAccountant(admin.clone()), RdSetting::RewardsAccountant(admin.clone()), RdSetting::ContributorManager(admin.clone())] {
                let ix = s.rd_configure(&admin, st); s.op(tx(vec![ix])).await; }
            g.debt_acc = admin.clone(); g.rew_acc = admin.clone(); g.cmgr = admin.clone();
            let e = open_epoch(&mut s, &mut g).await;
            let t = s.def_tree(0, vec![Leaf::Debt { node: g.nodes[6].clone(), amount: 4_000 }]);
            let rt = s.def_tree(1, vec![Leaf::Reward { contributor: g.svcs[0].clone(), unit_share: 1_000_000_000, packed: 0 }]);
            let p = s.proof(&t, 0).unwrap();
            let steps = vec![
                s.rd_set_rewards_manager(&admin, &g.svcs[3].clone(), &g.users[9].clone()),
                s.rd_configure_debt(&admin, e, 1, 4_000, t.root),
                s.rd_finalize_debt(&admin, e, &g.payer),
                s.rd_enable_write_off(e, &g.payer),
                s.rd_write_off(&admin, e, &g.nodes[6].clone(), e, 4_000, &p),
                s.rd_configure_rewards(&admin, e, 1, rt.root) ];
            for ix in steps {
                let pz = s.rd_configure(&admin, RdSetting::Paused(true)); s.op(tx(vec![pz])).await;
                s.op(tx(vec![ix.clone()])).await;                                           // paused: refused although the admin signs
                let up = s.rd_configure(&admin, RdSetting::Paused(false)); s.op(tx(vec![up])).await;
                s.op(tx(vec![ix])).await;
            }
        }
        16 => { // C04: rewards of the genesis epoch cannot be finalized before the configured minimum number of epochs (2, then 3) has
                // elapsed, also while fewer epochs than that exist at all
            for min in [2u8, 3] {
                let ix = s.rd_configure(&g.admin, RdSetting::MinEpochs(min)); s.op(tx(vec![ix])).await; g.min_epochs = min as u64;
                let e = open_epoch(&mut s, &mut g).await;
                let t = s.def_tree(0, vec![]);
                let ix = s.rd_configure_debt(&g.debt_acc, e, 0, 0, t.root); s.op(tx(vec![ix])).await;
                let ix = s.rd_finalize_debt(&g.debt_acc, e, &g.payer); s.op(tx(vec![ix])).await;
                let rt = s.def_tree(1, vec![Leaf::Reward { contributor: g.svcs[0].clone(), unit_share: 1_000_000_000, packed: 0 }]);
                let ix = s.rd_configure_rewards(&g.rew_acc, e, 1, rt.root); s.op(tx(vec![ix])).await;
                for _ in 0..min {
                    let ix = s.rd_finalize_rewards(&g.payer, e); s.op(tx(vec![ix])).await;      // too early until `min` epochs exist after e
                    let _ = open_epoch(&mut s, &mut g).await;
                }
                let ix = s.rd_finalize_rewards(&g.payer, e); s.op(tx(vec![ix])).await;
                if min == 2 {   // C11: an epoch that collected nothing at all: its single leaf is distributed (nothing moves, nothing burns) and
                                // the relayer is still paid the fee
                    let ix = s.rd_sweep(e, &K::SwapMock, &g.fills); s.op(tx(vec![ix])).await;
                    let recs: Vec<K> = g.recips[0].iter().map(|x| x.0.clone()).collect();
                    for (r, _) in g.recips[0].clone() { s.reg_ata(&r); s.op(Op::CreateAta { payer: g.payer.clone(), owner: r }).await; }
                    let p = s.proof(&rt, 0).unwrap();
                    let ix = s.rd_distribute(e, &g.svcs[0].clone(), &g.relayer, &recs, 1_000_000_000, 0, &p); s.op(tx(vec![ix])).await;
                }
            }
        }
        15 => { // C11 / C12 / C04 / C16: a rewards root with one leaf more than the declared number of contributors (the surplus leaf can
                // never be distributed, so no relay fee beyond the prepaid ones is ever paid); rewards figures re-posted after their
                // finalisation (refused, also with the null root); the block flag set twice in a row stays set
            let ja = K::Ata(b(&K::RdJournal), b(&K::Mint));
            s.op(Op::MintTo(ja.clone(), 1_000_003)).await;
            let e = open_epoch(&mut s, &mut g).await;
            let t = s.def_tree(0, vec![]);
            let ix = s.rd_configure_debt(&g.debt_acc, e, 0, 0, t.root); s.op(tx(vec![ix])).await;
            let ix = s.rd_finalize_debt(&g.debt_acc, e, &g.payer); s.op(tx(vec![ix])).await;
            let v = g.svcs[0].clone();
            let rl: Vec<Leaf> = (0..4).map(|_| Leaf::Reward { contributor: v.clone(), unit_share: 250_000_000, packed: 0 }).collect();
            let rt = s.def_tree(1, rl.clone());
            let ix = s.rd_configure_rewards(&g.rew_acc, e, 3, rt.root); s.op(tx(vec![ix])).await;
            let _ = open_epoch(&mut s, &mut g).await;
            // C11: a lamport surplus already on the account does not reduce what the payer prepays at finalisation (fee x contributors)
            s.op(Op::Airdrop(K::RdDist(e), 50_000)).await;
            // C04: a zero-debt sweep (no swap needed) of the epoch the pointer names, before rewards are final: refused
            let ix = s.rd_sweep(e, &K::SwapMock, &g.fills); s.op(tx(vec![ix])).await;
            let ix = s.rd_finalize_rewards(&g.payer, e); s.op(tx(vec![ix])).await;
            // after finalisation the figures are frozen: more contributors, another root, the null root with none
            let rt2 = s.def_tree(1, vec![Leaf::Reward { contributor: g.svcs[1].clone(), unit_share: 1_000_000_000, packed: 0 }]);
            let ix = s.rd_configure_rewards(&g.rew_acc, e, 8, rt.root); s.op(tx(vec![ix])).await;
            let ix = s.rd_configure_rewards(&g.rew_acc, e, 1, rt2.root); s.op(tx(vec![ix])).await;
            let ix = s.rd_configure_rewards(&g.rew_acc, e, 3, rt2.root); s.op(tx(vec![ix])).await;      // same count, another root: refused too
            // C04 / C02: nothing to sweep (no debt) does not mean swept: a distribution before the sweep is refused
            { let recs0: Vec<K> = g.recips[0].iter().map(|x| x.0.clone()).collect();
              for (r, _) in g.recips[0].clone() { s.reg_ata(&r); s.op(Op::CreateAta { payer: g.payer.clone(), owner: r }).await; }
              let p = s.proof(&rt, 0).unwrap();
              let ix = s.rd_distribute(e, &v, &g.relayer, &recs0, 250_000_000, 0, &p); s.op(tx(vec![ix])).await; }
            let nt = s.def_tree(1, vec![]);
            let ix = s.rd_configure_rewards(&g.rew_acc, e, 0, nt.root); s.op(tx(vec![ix])).await;
            let ix = s.rd_sweep(e, &K::SwapMock, &g.fills); s.op(tx(vec![ix])).await;
            let ix = s.rd_configure_rewards(&g.rew_acc, e, 8, rt.root); s.op(tx(vec![ix])).await;
            let recs: Vec<K> = g.recips[0].iter().map(|x| x.0.clone()).collect();
            for (r, _) in g.recips[0].clone() { s.reg_ata(&r); s.op(Op::CreateAta { payer: g.payer.clone(), owner: r }).await; }
            s.op(Op::Airdrop(K::RdDist(e), 1_000_000)).await;      // a lamport surplus, so that only the program's own count stops the fourth payout
            for idx in [0u32, 1, 2, 3, 3] {
                let p = s.proof(&rt, idx).unwrap();
                let ix = s.rd_distribute(e, &v, &g.relayer, &recs, 250_000_000, 0, &p); s.op(tx(vec![ix])).await;
            }
            // C16: a table of four entries replaced by one of two: the stored table is exactly the new list
            { let (v3, m3) = (g.svcs[3].clone(), g.users[9].clone());
              let ix = s.rd_set_rewards_manager(&g.cmgr, &v3, &m3); s.op(tx(vec![ix])).await;
              let four: Vec<(K, u16)> = (0..4).map(|j| (K::User(330 + j), 2_500u16)).collect();
              let two: Vec<(K, u16)> = (0..2).map(|j| (K::User(340 + j), 5_000u16)).collect();
              for rec in [four, two] { let ix = s.rd_configure_contributor_recipients(&m3, &v3, &rec); s.op(tx(vec![ix])).await; }
              // nine entries whose first eight already total 100%: refused, the stored table stays
              let nine: Vec<(K, u16)> = (0..9).map(|j| (K::User(350 + j), if j < 8 { 1_250u16 } else { 4_000 })).collect();
              let ix = s.rd_configure_contributor_recipients(&m3, &v3, &nine); s.op(tx(vec![ix])).await; }
            // block, block again (a retry), then the contributor manager tries to replace the rewards manager: still refused
            let (v2, m2) = (g.svcs[2].clone(), g.users[9].clone());
            let ix = s.rd_set_rewards_manager(&g.cmgr, &v2, &m2); s.op(tx(vec![ix])).await;
            for _ in 0..2 { let ix = s.rd_configure_contributor_block(&m2, &v2, true); s.op(tx(vec![ix])).await; }
            let ix = s.rd_set_rewards_manager(&g.cmgr, &v2, &g.users[10].clone()); s.op(tx(vec![ix])).await;
            for _ in 0..2 { let ix = s.rd_configure_contributor_block(&m2, &v2, false); s.op(tx(vec![ix])).await; }
            let ix = s.rd_set_rewards_manager(&g.cmgr, &v2, &g.users[10].clone()); s.op(tx(vec![ix])).await;
        }
        14 => { // C08: every instruction of an epoch's pipeline (and the contributor settings), each first attempted while the program is
                // paused (refused, nothing changes), then again after the admin has cleared the flag (behaves as if never paused)
            let admin = g.admin.clone();
            macro_rules! both { ($ix:expr) => {{
                let ix = $ix;
                let p = s.rd_configure(&admin, RdSetting::Paused(true)); s.op(tx(vec![p])).await;
                s.op(tx(vec![ix.clone()])).await;
                let u = s.rd_configure(&admin, RdSetting::Paused(false)); s.op(tx(vec![u])).await;
                s.op(tx(vec![ix])).await;
            }}; }
            let (v, m) = (g.svcs[1].clone(), g.users[9].clone());
            both!(s.rd_set_rewards_manager(&g.cmgr, &v, &m));
            both!(s.rd_configure_contributor_block(&m, &v, true));
            both!(s.rd_configure_contributor_block(&m, &v, false));
            let rec = vec![(K::User(310), 4_000u16), (K::User(311), 6_000u16)];
            both!(s.rd_configure_contributor_recipients(&m, &v, &rec));
            for (r, _) in &rec { s.reg_ata(r); s.op(Op::CreateAta { payer: g.payer.clone(), owner: r.clone() }).await; }
            g.clock += g.init_grace * 60; s.op(Op::SetClock(g.clock)).await;
            let e = g.eps.len() as u64;
            both!(s.rd_initialize_distribution(&g.debt_acc, &g.payer, e));
            g.eps.push(crate::fam_rd::Ep { e, ..Default::default() });
            g.clock += g.calc_grace * 60; s.op(Op::SetClock(g.clock)).await;
            let (a, w) = (600_000u64, 50_000u64);
            let t = s.def_tree(0, vec![Leaf::Debt { node: g.nodes[0].clone(), amount: a }, Leaf::Debt { node: g.nodes[6].clone(), amount: w }]);
            both!(s.rd_configure_debt(&g.debt_acc, e, 2, a + w, t.root));
            both!(s.rd_finalize_debt(&g.debt_acc, e, &g.payer));
            s.op(Op::Airdrop(K::RdDeposit(b(&g.nodes[0])), a)).await;
            let p0 = s.proof(&t, 0).unwrap(); let p1 = s.proof(&t, 1).unwrap();
            both!(s.rd_pay(e, &g.nodes[0].clone(), a, &p0));
            both!(s.rd_enable_write_off(e, &g.payer));
            both!(s.rd_write_off(&g.debt_acc, e, &g.nodes[6].clone(), e, w, &p1));
            let rt = s.def_tree(1, vec![Leaf::Reward { contributor: v.clone(), unit_share: 1_000_000_000, packed: 0 }]);
            both!(s.rd_configure_rewards(&g.rew_acc, e, 1, rt.root));
            let _ = open_epoch(&mut s, &mut g).await;
            // C04: the sweep of the epoch the pointer names, attempted between debt and rewards finalisation: refused
            let ix = s.rd_sweep(e, &K::SwapMock, &g.fills); s.op(tx(vec![ix])).await;
            both!(s.rd_finalize_rewards(&g.payer, e));
            both!(s.sw_buy(&g.fills, &K::Ata(b(&g.buyer), b(&K::Mint)), &g.buyer, &g.users[8], 70_000, a));
            both!(s.rd_sweep(e, &K::SwapMock, &g.fills));
            let pr = s.proof(&rt, 0).unwrap();
            let recs: Vec<K> = rec.iter().map(|x| x.0.clone()).collect();
            // C03: the relayer passes one recipient's token account in both recipient positions / the two in the wrong order: refused
            { let d = s.rd_distribute(e, &v, &g.relayer, &recs, 1_000_000_000, 0, &pr); let n = d.metas.len();
              let (a0, a1) = (d.metas[n - 2].0.clone(), d.metas[n - 1].0.clone());
              let ix = d.clone().with_key(n - 1, &a0); s.op(tx(vec![ix])).await;
              let ix = d.clone().with_key(n - 2, &a1); s.op(tx(vec![ix])).await;
              let ix = d.clone().with_key(n - 2, &a1).with_key(n - 1, &a0); s.op(tx(vec![ix])).await; }
            both!(s.rd_distribute(e, &v, &g.relayer, &recs, 1_000_000_000, 0, &pr));
        }
        13 => { // C03 / C02: amounts where floor(share x remainder / 10 000) no longer fits a u64 product
            let src = K::Ata(b(&g.buyer), b(&K::Mint));
            s.op(Op::MintTo(src.clone(), 9_000_000_000_000_000_000)).await;
            let e = open_epoch(&mut s, &mut g).await;
            let debt = 4_000_000u64;
            let t = s.def_tree(0, vec![Leaf::Debt { node: g.nodes[0].clone(), amount: debt }]);
            let ix = s.rd_configure_debt(&g.debt_acc, e, 1, debt, t.root); s.op(tx(vec![ix])).await;
            let ix = s.rd_finalize_debt(&g.debt_acc, e, &g.payer); s.op(tx(vec![ix])).await;
            s.op(Op::Airdrop(K::RdDeposit(b(&g.nodes[0])), debt)).await;
            let p = s.proof(&t, 0).unwrap(); let ix = s.rd_pay(e, &g.nodes[0].clone(), debt, &p); s.op(tx(vec![ix])).await;
            let rl = vec![Leaf::Reward { contributor: g.svcs[0].clone(), unit_share: 600_000_000, packed: 0 },
                          Leaf::Reward { contributor: g.svcs[2].clone(), unit_share: 400_000_000, packed: 1 }];
            let rt = s.def_tree(1, rl.clone());
            let ix = s.rd_configure_rewards(&g.rew_acc, e, 2, rt.root); s.op(tx(vec![ix])).await;
            let _ = open_epoch(&mut s, &mut g).await;
            let ix = s.rd_finalize_rewards(&g.payer, e); s.op(tx(vec![ix])).await;
            let ix = s.sw_buy(&g.fills, &src, &g.buyer, &g.users[8], 8_000_000_000_000_000_000, debt); s.op(tx(vec![ix])).await;
            let ix = s.rd_sweep(e, &K::SwapMock, &g.fills); s.op(tx(vec![ix])).await;
            for (idx, l) in rl.iter().enumerate() {
                let Leaf::Reward { contributor, unit_share, packed } = l.clone() else { unreachable!() };
                let ci = g.svcs.iter().position(|x| *x == contributor).unwrap();
                for (r, _) in g.recips[ci].clone() { s.reg_ata(&r); s.op(Op::CreateAta { payer: g.payer.clone(), owner: r }).await; }
                let recs: Vec<K> = g.recips[ci].iter().map(|x| x.0.clone()).collect();
                let p = s.proof(&rt, idx as u32).unwrap();
                let ix = s.rd_distribute(e, &contributor, &g.relayer, &recs, unit_share, packed, &p); s.op(tx(vec![ix])).await;
            }
        }
        3 | _ => { // C05: malformed replies (no return data, wrong length, wrong SOL amount, honest amount)
            let rogue = K::Rogue(2);
            let ix = s.rd_configure(&g.admin, RdSetting::SwapProgram(rogue.clone())); s.op(tx(vec![ix])).await;
            let e = open_epoch(&mut s, &mut g).await;
            let debt = 777_000u64;
            let t = s.def_tree(0, vec![Leaf::Debt { node: g.nodes[1].clone(), amount: debt }]);
            let ix = s.rd_configure_debt(&g.debt_acc, e, 1, debt, t.root); s.op(tx(vec![ix])).await;
            let ix = s.rd_finalize_debt(&g.debt_acc, e, &g.payer); s.op(tx(vec![ix])).await;
            s.op(Op::Airdrop(K::RdDeposit(b(&g.nodes[1])), debt)).await;
            let p = s.proof(&t, 0).unwrap();
            let ix = s.rd_pay(e, &g.nodes[1].clone(), debt, &p); s.op(tx(vec![ix])).await;
            let rt = s.def_tree(1, vec![Leaf::Reward { contributor: g.svcs[0].clone(), unit_share: 1_000_000_000, packed: 0 }]);
            let ix = s.rd_configure_rewards(&g.rew_acc, e, 1, rt.root); s.op(tx(vec![ix])).await;
            let _ = open_epoch(&mut s, &mut g).await;
            let ix = s.rd_finalize_rewards(&g.payer, e); s.op(tx(vec![ix])).await;
            let src = K::Ata(b(&g.buyer), b(&K::Mint));
            let ix = s.rogue_buy(2, &src, &g.buyer, &g.users[8], 900, debt); s.op(tx(vec![ix])).await;
            let script = K::User(61);
            let reply = |a: u64, z: u64| { let mut d = vec![1u8]; d.extend_from_slice(&a.to_le_bytes()); d.extend_from_slice(&z.to_le_bytes()); d.extend_from_slice(&1u64.to_le_bytes()); d };
            let trailing = { let mut d = reply(debt, 900); d[0] = 3; d.push(0xAB); d };      // a well-formed reply followed by one more byte
            for data in [vec![0u8; 4], vec![2u8, 23, 0], vec![2u8, 25, 0], trailing, reply(debt + 1, 900), reply(debt, 901), reply(debt, 900)] {
                s.op(Op::ForgeRaw { to: script.clone(), owner: rogue.clone(), lamports: 2_000_000, data }).await;
                let ix = s.rd_sweep(e, &rogue, &script); s.op(tx(vec![ix])).await;
            }
        }
    }
    s
}

/// C15: creation is refused while any of the five parameters it snapshots or paces by is still unconfigured
/// (scripts 7..11 leave out init grace / calc grace / fee parameters / burn rate / relay fee), and accepted once it is set.
async fn unconfigured(mut s: Sim, mut rng: Rng, which: u64) -> Sim {
    let (skip, fix) = match which {
        7 => (6usize, RdSetting::InitGrace(2)), 8 => (5, RdSetting::CalcGrace(2)), 9 => (4, RdSetting::FeeParams(1, 2, 3, 4, 5)),
        10 => (7, RdSetting::BurnRate(500_000_000, 1, 2, Some(100_000_000))), _ => (8, RdSetting::RelayLamports(5001)) };
    let mut g = bootstrap_with(&mut s, &mut rng, Some(skip)).await;
    let ix = s.rd_configure(&g.admin, RdSetting::Paused(false)); s.op(tx(vec![ix])).await;
    g.clock += 400; s.op(Op::SetClock(g.clock)).await;
    let ix = s.rd_initialize_distribution(&g.debt_acc, &g.payer, 0); s.op(tx(vec![ix])).await;      // refused: one parameter missing
    let ix = s.rd_configure(&g.admin, fix); s.op(tx(vec![ix])).await;
    g.clock += 400; s.op(Op::SetClock(g.clock)).await;
    let ix = s.rd_initialize_distribution(&g.debt_acc, &g.payer, 0); s.op(tx(vec![ix])).await;      // accepted
    s
}

/// C10: write-offs cannot be enabled while the write-off feature's activation epoch was never configured (script 17);
/// after the admin configures it the same instruction is accepted
async fn feature_unconfigured(mut s: Sim, mut rng: Rng) -> Sim {
    let mut g = bootstrap_with(&mut s, &mut rng, Some(10)).await;
    for st in [RdSetting::CalcGrace(1), RdSetting::InitGrace(1), RdSetting::Paused(false)] { let ix = s.rd_configure(&g.admin, st); s.op(tx(vec![ix])).await; }
    g.calc_grace = 1; g.init_grace = 1;
    let e = open_epoch(&mut s, &mut g).await;
    let t = s.def_tree(0, vec![Leaf::Debt { node: g.nodes[6].clone(), amount: 9_000 }]);
    let ix = s.rd_configure_debt(&g.debt_acc, e, 1, 9_000, t.root); s.op(tx(vec![ix])).await;
    let ix = s.rd_finalize_debt(&g.debt_acc, e, &g.payer); s.op(tx(vec![ix])).await;
    let ix = s.rd_enable_write_off(e, &g.payer); s.op(tx(vec![ix])).await;                       // refused: feature never configured
    let p = s.proof(&t, 0).unwrap();
    let ix = s.rd_write_off(&g.debt_acc, e, &g.nodes[6].clone(), e, 9_000, &p); s.op(tx(vec![ix])).await;   // refused: not enabled
    let ix = s.rd_configure(&g.admin, RdSetting::FeatureActivation(5)); s.op(tx(vec![ix])).await;
    let ix = s.rd_enable_write_off(e, &g.payer); s.op(tx(vec![ix])).await;                       // refused: activation epoch not reached
    let ix = s.rd_configure(&g.admin, RdSetting::FeatureActivation(1)); s.op(tx(vec![ix])).await;
    let ix = s.rd_enable_write_off(e, &g.payer); s.op(tx(vec![ix])).await;                       // accepted
    let ix = s.rd_write_off(&g.debt_acc, e, &g.nodes[6].clone(), e, 9_000, &p); s.op(tx(vec![ix])).await;
    s
}

/// C15 / C07: no debt accountant was ever appointed (script 22): nobody - in particular not the admin - can create a distribution;
/// after the admin appoints one, that wallet can
async fn accountant_unappointed(mut s: Sim, mut rng: Rng) -> Sim {
    let mut g = bootstrap_with(&mut s, &mut rng, Some(0)).await;
    for st in [RdSetting::CalcGrace(1), RdSetting::InitGrace(1), RdSetting::Paused(false)] { let ix = s.rd_configure(&g.admin, st); s.op(tx(vec![ix])).await; }
    g.clock += 400; s.op(Op::SetClock(g.clock)).await;
    for who in [g.admin.clone(), g.debt_acc.clone(), g.payer.clone()] {
        let ix = s.rd_initialize_distribution(&who, &g.payer, 0); s.op(tx(vec![ix])).await;          // refused: the role is vacant
    }
    let ix = s.rd_configure(&g.admin, RdSetting::DebtAccountant(g.debt_acc.clone())); s.op(tx(vec![ix])).await;
    let ix = s.rd_initialize_distribution(&g.admin, &g.payer, 0); s.op(tx(vec![ix])).await;           // still not the admin
    let ix = s.rd_initialize_distribution(&g.debt_acc, &g.payer, 0); s.op(tx(vec![ix])).await;        // accepted
    s
}
