mod rng;
mod direct_swap;
mod direct_shares;
mod direct_burn;
mod direct_wire;
mod constants;
mod keys;
mod sim;
mod ixb;
mod scen;
mod fam_passport;
mod fam_rd;
mod fam_directed;
mod fam_honest;

fn arg<T: std::str::FromStr>(a: &[String], i: usize, d: T) -> T { a.get(i).and_then(|s| s.parse().ok()).unwrap_or(d) }

fn main() {
    std::env::set_var("RUST_LOG", "off");
    let a: Vec<String> = std::env::args().collect();
    match a.get(1).map(|s| s.as_str()) {
        Some("direct-swap") => direct_swap::main(arg(&a, 2, 0), arg(&a, 3, 100), arg(&a, 4, 40)),
        Some("direct-shares") => direct_shares::main(arg(&a, 2, 0), arg(&a, 3, 3000), arg(&a, 4, "mul,split,pack,recipients".to_string())),
        Some("direct-burn") => direct_burn::main(arg(&a, 2, 0), arg(&a, 3, 1000), arg(&a, 4, 40)),
        Some("direct-wire") => direct_wire::main(arg(&a, 2, 0), arg(&a, 3, 200), arg(&a, 4, 0), arg(&a, 5, 1), arg(&a, 6, -1)),
        Some("bank-passport") => scen::run_family(arg(&a, 2, 0), arg(&a, 3, 16), arg(&a, 4, 60), fam_passport::scenario),
        Some("bank-rd") => scen::run_family(arg(&a, 2, 0), arg(&a, 3, 16), arg(&a, 4, 120), fam_rd::scenario),
        Some("bank-directed") => scen::run_family(arg(&a, 2, 0), arg(&a, 3, 4), arg(&a, 4, 0), fam_directed::scenario),
        Some("bank-honest") => scen::run_family(arg(&a, 2, 0), arg(&a, 3, 16), arg(&a, 4, 0), fam_honest::scenario),
        Some("dump-constants") => constants::main(),
        Some("bumps") => { for (n, id) in [("mock", mock_swap_sol_2z::ID)].into_iter().chain((1..12u64).map(|i| ("rogue", keys::rogue_id(i)))) {
            println!("{} {} bump {}", n, id, doublezero_revenue_distribution::state::find_withdraw_sol_authority_address(&id).1); } }
        _ => { eprintln!("usage: dzh <family> ..."); std::process::exit(2); }
    }
}
