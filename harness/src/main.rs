mod rng;
mod direct_swap;
mod constants;

fn arg<T: std::str::FromStr>(a: &[String], i: usize, d: T) -> T { a.get(i).and_then(|s| s.parse().ok()).unwrap_or(d) }

fn main() {
    let a: Vec<String> = std::env::args().collect();
    match a.get(1).map(|s| s.as_str()) {
        Some("direct-swap") => direct_swap::main(arg(&a, 2, 0), arg(&a, 3, 100), arg(&a, 4, 40)),
        Some("dump-constants") => constants::main(),
        _ => { eprintln!("usage: dzh <family> ..."); std::process::exit(2); }
    }
}
