//! Bank-level family `passport`: configuration, requests (both modes, prefunding, CPI), grant / deny, pause flags,
//! rotation of admin and sentinel, account-list faults.  Serves C17, C18 and the passport rows of C07, C08, C09.
use crate::ixb::PpSetting;
use crate::keys::{b, K};
use crate::rng::Rng;
use crate::scen::{fault, tx};
use crate::sim::{Op, Sim, UPGRADE_AUTHORITY};
use std::future::Future;
use std::pin::Pin;

pub fn scenario(sim: Sim, rng: Rng, len: usize) -> Pin<Box<dyn Future<Output = Sim>>> { Box::pin(run(sim, rng, len)) }

async fn run(mut s: Sim, mut rng: Rng, len: usize) -> Sim {
    let up = K::User(UPGRADE_AUTHORITY);
    let users: Vec<K> = (10..18).map(K::User).collect();
    for u in &users { s.op(Op::Airdrop(u.clone(), 50_000_000_000)).await; }
    let mut admin = users[0].clone();
    let mut sentinel = users[1].clone();
    let svcs: Vec<K> = (100..106).map(K::User).collect();
    for v in &svcs { s.reg_svc(v); }
    let mut universe: Vec<K> = users.clone();
    universe.extend([K::PpConfig, K::System, K::ProgData(b(&K::Passport)), K::ProgData(b(&K::Rd)), K::Passport, K::Mint]);
    for v in &svcs { universe.push(K::PpRequest(b(v))); }
    // bootstrap (sometimes left incomplete so that the unconfigured paths are reached)
    let ix = s.pp_initialize(&users[2]); s.op(tx(vec![ix])).await;
    if rng.chance(9, 10) { let ix = s.pp_set_admin(&up, &admin); s.op(tx(vec![ix])).await; }
    if rng.chance(9, 10) { let ix = s.pp_configure(&admin, PpSetting::Sentinel(sentinel.clone())); s.op(tx(vec![ix])).await; }
    if rng.chance(8, 10) { let d = *rng.pick(&[1u64, 1_000_000, 10_000_000, 5_000_000_000]); let f = if d > 1 { rng.below(d) } else { 0 };
        let ix = s.pp_configure(&admin, PpSetting::Deposit(d, f)); s.op(tx(vec![ix])).await; }
    if rng.chance(8, 10) { let ix = s.pp_configure(&admin, PpSetting::BackupLimit(rng.range(1, 4) as u16)); s.op(tx(vec![ix])).await; }
    let mut limit_guess = 4usize;
    if (s.n >> 32) % 4 == 1 {
        // backup lists up to and beyond the storage bound of the access-mode field (4096 bytes: 123 backup ids fit, 124 do not). Such an
        // instruction is larger than a network packet; the in-process bank carries it, and the processor must refuse what it cannot store
        let ix = s.pp_configure(&admin, PpSetting::BackupLimit(200)); s.op(tx(vec![ix])).await;
        for nb in [122usize, 123, 124, 150] {
            let backups: Vec<K> = (0..nb).map(|i| K::User(2000 + i as u64)).collect();
            let mode = s.access_mode(&K::User(300), &svcs[0], 1, Some(&backups));
            let ix = s.pp_request(&users[3], &svcs[0], &mode); s.op(tx(vec![ix])).await;
            let ix = s.pp_deny(&sentinel, &svcs[0]); s.op(tx(vec![ix])).await;
        }
        let ix = s.pp_configure(&admin, PpSetting::BackupLimit(3)); s.op(tx(vec![ix])).await;
    }
    if (s.n >> 32) % 4 == 2 {
        // C08: both pause flags set at once (in both orders): grant and deny of a pending request are refused, and each flag can be cleared
        // on its own; afterwards everything works as if never paused
        let mode = s.access_mode(&K::User(300), &svcs[1], 5, None);
        let ix = s.pp_request(&users[3], &svcs[1], &mode); s.op(tx(vec![ix])).await;
        for order in [[PpSetting::RequestPaused(true), PpSetting::Paused(true)], [PpSetting::Paused(true), PpSetting::RequestPaused(true)]] {
            for st in order { let ix = s.pp_configure(&admin, st); s.op(tx(vec![ix])).await; }
            let ix = s.pp_grant(&sentinel, &svcs[1], &users[3]); s.op(tx(vec![ix])).await;
            let ix = s.pp_deny(&sentinel, &svcs[1]); s.op(tx(vec![ix])).await;
            let ix = s.pp_request(&users[4], &svcs[2], &mode); s.op(tx(vec![ix])).await;
            let ix = s.pp_configure(&admin, PpSetting::Paused(false)); s.op(tx(vec![ix])).await;
            let ix = s.pp_request(&users[4], &svcs[2], &mode); s.op(tx(vec![ix])).await;       // request-only pause still on: refused
            let ix = s.pp_configure(&admin, PpSetting::RequestPaused(false)); s.op(tx(vec![ix])).await;
        }
        let ix = s.pp_grant(&sentinel, &svcs[1], &users[3]); s.op(tx(vec![ix])).await;
    }
    let mut pending: Vec<(K, K)> = vec![];   // (service key, payer) of requests believed pending
    for _ in 0..len {
        let mut payer = if rng.chance(1, 7) { sentinel.clone() } else { rng.pick(&users[2..]).clone() };   // incl. sentinel = requester
        let mut svc = if rng.chance(1, 25) { K::System } else { rng.pick(&svcs).clone() };
        let settle = rng.chance(3, 4) && !pending.is_empty();
        let kind = rng.below(22);
        if settle && (6..=10).contains(&kind) { let (v, p) = rng.pick(&pending).clone(); svc = v; payer = p; }
        let honest = match kind {
            0..=5 => { // request access
                let nb = rng.below(limit_guess as u64 + 2) as usize;
                let backups: Vec<K> = (0..nb).map(|i| K::User(200 + i as u64)).collect();
                let mode = if rng.chance(1, 2) { s.access_mode(&K::User(300), &svc, rng.below(1000), None) }
                           else { s.access_mode(&K::User(300), &svc, rng.below(1000), Some(&backups)) };
                let ix = s.pp_request(&payer, &svc, &mode);
                if rng.chance(1, 8) { s.via_rogue(1, &ix) } else {
                    if rng.chance(3, 4) { if s.op(tx(vec![ix])).await { pending.push((svc.clone(), payer.clone())); } continue; }
                    ix }
            }
            6..=8 => { let ben = if rng.chance(5, 6) { payer.clone() } else { rng.pick(&users).clone() };
                       let ix = s.pp_grant(&sentinel, &svc, &ben);
                       if rng.chance(3, 4) { if s.op(tx(vec![ix])).await { pending.retain(|x| x.0 != svc); } continue; }
                       ix }
            9..=10 => { let ix = s.pp_deny(&sentinel, &svc);
                        if rng.chance(3, 4) { if s.op(tx(vec![ix])).await { pending.retain(|x| x.0 != svc); } continue; }
                        ix }
            11 => { // prefund the request address around the interesting thresholds
                let amt = *rng.pick(&[1u64, 890_880, 29_956_000, 29_956_001, 40_000_000, 6_000_000_000]);
                s.op(Op::Airdrop(K::PpRequest(b(&svc)), amt)).await; continue; }
            12 => { let v = rng.chance(1, 2); s.pp_configure(&admin, if rng.chance(1, 2) { PpSetting::Paused(v) } else { PpSetting::RequestPaused(v) }) }
            13 => { let d = *rng.pick(&[0u64, 1, 2, 1_000_000, 10_000_000]); let f = *rng.pick(&[0u64, 1, 2, 999_999, 1_000_000, 10_000_001]);
                    s.pp_configure(&admin, PpSetting::Deposit(d, f)) }
            14 => { let l = rng.below(5) as u16; if l > 0 { limit_guess = l as usize; } s.pp_configure(&admin, PpSetting::BackupLimit(l)) }
            15 => { let ns = rng.pick(&users).clone(); let ix = s.pp_configure(&admin, PpSetting::Sentinel(ns.clone()));
                    if s.op(tx(vec![ix])).await { sentinel = ns; } continue; }
            16 => { let na = rng.pick(&users).clone(); let who = if rng.chance(3, 4) { up.clone() } else { rng.pick(&users).clone() };
                    let ix = s.pp_set_admin(&who, &na); if s.op(tx(vec![ix])).await { admin = na; } continue; }
            17 => s.pp_initialize(&payer),
            20 => { // grant / deny signed by the admin in the sentinel's place (the admin is not the sentinel)
                if rng.chance(1, 2) { s.pp_grant(&admin, &svc, &payer) } else { s.pp_deny(&admin, &svc) } }
            18 => { // configuration attempted by somebody who is not (or no longer) the admin
                let who = rng.pick(&users).clone(); s.pp_configure(&who, PpSetting::BackupLimit(3)) }
            21 => { // look-alikes: program data naming the attacker (loader-owned at a foreign address / other owners), forged config
                let attacker = users[7].clone();
                if rng.chance(1, 2) {
                    let fake = K::User(710 + rng.below(2));
                    let owner = if rng.chance(2, 3) { K::Loader } else { rng.pick(&[K::System, K::Rogue(1)]).clone() };
                    s.forge_progdata(&attacker, &fake, &owner).await;
                    let ix = s.pp_set_admin(&attacker, &attacker).with_key(0, &if rng.chance(3, 4) { fake } else { K::ProgData(b(&K::Rd)) });
                    s.op(tx(vec![ix])).await;
                } else {
                    let fake = K::User(700 + rng.below(2));
                    let owner = rng.pick(&[K::Rogue(2), K::System, K::Rd, K::Token]).clone();
                    s.forge_pp_config(&attacker, &fake, &owner).await;
                    let ix = match rng.below(4) { 0 => s.pp_configure(&attacker, PpSetting::BackupLimit(9)), 1 => s.pp_grant(&attacker, &svc, &payer), 2 => s.pp_deny(&attacker, &svc),
                        _ => { let mode = s.access_mode(&K::User(300), &svc, 9, None); s.pp_request(&payer, &svc, &mode) } };
                    s.op(tx(vec![ix.with_key(0, &fake)])).await;
                }
                continue; }
            19 => { // two settlements of the same request in one transaction; a request whose payer is the (pre-funded) request address itself
                match rng.below(3) {
                    0 => { let a = s.pp_grant(&sentinel, &svc, &payer); let b2 = s.pp_grant(&sentinel, &svc, &payer); s.op(tx(vec![a, b2])).await; }
                    1 => { let a = s.pp_grant(&sentinel, &svc, &payer); let b2 = s.pp_deny(&sentinel, &svc); s.op(tx(vec![b2, a])).await; }
                    _ => { let rk = K::PpRequest(b(&svc)); s.op(Op::Airdrop(rk.clone(), 6_000_000_000)).await;
                           let mode = s.access_mode(&K::User(300), &svc, 7, None);
                           let ix = s.pp_request(&payer, &svc, &mode).with_key(1, &rk).with_signer(1, false);
                           s.op(tx(vec![ix])).await;
                           let g = s.pp_grant(&sentinel, &svc, &rk); s.op(tx(vec![g])).await; }
                }
                continue; }
            _ => { // grant where the sentinel meta does not sign but signs another instruction of the same transaction
                let g = s.pp_grant(&sentinel, &svc, &payer).with_signer(1, false);
                let other = s.sys_transfer(&sentinel, &payer, 0);
                s.op(tx(vec![g, other])).await; continue; }
        };
        let ix = if rng.chance(1, 4) { fault(&mut rng, honest, &universe).0 } else { honest };
        s.op(tx(vec![ix])).await;
    }
    s
}
