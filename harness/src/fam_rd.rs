//! Bank-level family `rd`: the revenue-distribution protocol end to end (configuration, epochs, debt trees, payments,
//! write-offs, swaps through the mock, sweeps, reward distribution), with guard-directed and random faults.
//! A `profile` biases the walk towards the instructions a property leans on.
use crate::ixb::{Leaf, Proof, RdSetting, Tree};
use crate::keys::{b, K};
use crate::rng::Rng;
use crate::scen::{fault, tx};
use crate::sim::{Op, Sim, UPGRADE_AUTHORITY};
use std::collections::HashSet;
use std::future::Future;
use std::pin::Pin;

pub fn scenario(sim: Sim, rng: Rng, len: usize) -> Pin<Box<dyn Future<Output = Sim>>> { Box::pin(run(sim, rng, len)) }

#[derive(Default, Clone)]
pub struct Ep {
    pub e: u64, pub debt: Option<Tree>, pub rew: Option<Tree>, pub total_debt: u64,
    pub debt_final: bool, pub rew_final: bool, pub swept: bool, pub wo: bool,
    pub settled: HashSet<u32>, pub distributed: HashSet<u32>, pub uncollectible: u64,
}
pub struct G {
    pub up: K, pub admin: K, pub debt_acc: K, pub rew_acc: K, pub cmgr: K, pub payer: K, pub buyer: K, pub relayer: K,
    pub users: Vec<K>, pub nodes: Vec<K>, pub svcs: Vec<K>, pub mgrs: Vec<K>, pub recips: Vec<Vec<(K, u16)>>,
    pub eps: Vec<Ep>, pub clock: u64, pub fills: K, pub universe: Vec<K>, pub paused: bool, pub swap: K,
    pub calc_grace: u64, pub init_grace: u64, pub min_epochs: u64, pub next_sweep: u64, pub big: bool, pub prev: Vec<K>,
}

pub async fn bootstrap(s: &mut Sim, rng: &mut Rng) -> G { let skip = if rng.chance(1, 4) { Some(rng.below(11) as usize) } else { None }; bootstrap_with(s, rng, skip).await }

/// `skip`: index of the one configuration parameter left unconfigured (None = complete configuration)
pub async fn bootstrap_with(s: &mut Sim, rng: &mut Rng, skip: Option<usize>) -> G {
    let up = K::User(UPGRADE_AUTHORITY);
    let users: Vec<K> = (10..22).map(K::User).collect();
    for u in &users { s.op(Op::Airdrop(u.clone(), 500_000_000_000)).await; }
    let nodes: Vec<K> = (100..108).map(K::User).collect();
    let svcs: Vec<K> = (200..206).map(K::User).collect();
    let fills = K::User(50);
    let mut g = G { up: up.clone(), admin: users[0].clone(), debt_acc: users[1].clone(), rew_acc: users[2].clone(), cmgr: users[3].clone(),
        payer: users[4].clone(), buyer: users[5].clone(), relayer: users[6].clone(), users: users.clone(), nodes: nodes.clone(), svcs: svcs.clone(),
        mgrs: vec![], recips: vec![], eps: vec![], clock: 1_700_000_000, fills: fills.clone(), universe: vec![], paused: true, swap: K::SwapMock,
        calc_grace: 0, init_grace: 0, min_epochs: 0, next_sweep: 0, big: rng.chance(1, 3), prev: vec![] };
    for n in &nodes { s.reg_node(n); }
    for v in &svcs { s.reg_svc(v); }
    for e in 0..6 { s.reg_epoch(e); }
    s.op(Op::SetClock(g.clock)).await;
    let ix = s.rd_initialize_program(&g.payer); s.op(tx(vec![ix])).await;
    let ix = s.rd_set_admin(&up, &g.admin); s.op(tx(vec![ix])).await;
    g.calc_grace = if rng.chance(1, 10) { 1440 } else { rng.range(1, 3) }; g.init_grace = if rng.chance(1, 6) { *rng.pick(&[1092u64, 1093, 2000, 2880]) } else { rng.range(1, 3) }; g.min_epochs = rng.range(1, 2);
    let cbr_init = *rng.pick(&[1u32, 100_000_000, 500_000_000, 1_000_000_000]);
    let cbr_lim = cbr_init.max(*rng.pick(&[100_000_000u32, 900_000_000, 1_000_000_000]));
    let settings = vec![
        RdSetting::DebtAccountant(g.debt_acc.clone()), RdSetting::RewardsAccountant(g.rew_acc.clone()), RdSetting::ContributorManager(g.cmgr.clone()),
        RdSetting::SwapProgram(K::SwapMock), RdSetting::FeeParams(500, 0, 100, 0, rng.below(3) as u32), RdSetting::CalcGrace(g.calc_grace as u16),
        RdSetting::InitGrace(g.init_grace as u16), RdSetting::BurnRate(cbr_lim, rng.range(1, 3) as u32, rng.range(3, 6) as u32, Some(cbr_init)),
        RdSetting::RelayLamports(*rng.pick(&[5001u32, 10_000, 100_000, 3_000_000_000, u32::MAX])), RdSetting::MinEpochs(g.min_epochs as u8),
        RdSetting::FeatureActivation(rng.range(1, 2)), RdSetting::Paused(false) ];
    for (si, st) in settings.into_iter().enumerate() {
        if skip == Some(si) { continue; }
        if matches!(st, RdSetting::Paused(false)) { g.paused = false; }
        let ix = s.rd_configure(&g.admin, st); s.op(tx(vec![ix])).await;
    }
    let ix = s.rd_initialize_journal(&g.payer); s.op(tx(vec![ix])).await;
    let ix = s.rd_initialize_swap_destination(&g.payer); s.op(tx(vec![ix])).await;
    // mock swap registry
    let c = s.sys_create(&g.payer, &fills, 1_893_120, 144, &K::SwapMock);
    let i = s.sw_init_registry(&fills);
    s.op(tx(vec![c, i])).await;
    // validators' deposits
    for n in &nodes {
        if *n != nodes[6] && *n != nodes[7] && rng.chance(1, 6) { s.op(Op::Airdrop(K::RdDeposit(b(n)), *rng.pick(&[1u64, 1_000_000, 2_000_000_000]))).await; }
        let ix = s.rd_initialize_deposit(&g.payer, n); s.op(tx(vec![ix])).await;
        if *n != nodes[6] && *n != nodes[7] && rng.chance(5, 6) { s.op(Op::Airdrop(K::RdDeposit(b(n)), rng.range(1, 50) * 1_000_000_000)).await; }
    }
    // contributors, managers, recipients and their ATAs
    for (i, v) in svcs.iter().enumerate() {
        let ix = s.rd_initialize_contributor(&g.payer, v); s.op(tx(vec![ix])).await;
        let mgr = users[7 + i % 4].clone();
        let ix = s.rd_set_rewards_manager(&g.cmgr, v, &mgr); s.op(tx(vec![ix])).await;
        let nrec = rng.range(1, 4) as usize;
        let mut shares = vec![10_000u16 / nrec as u16; nrec]; shares[0] += 10_000 - shares.iter().sum::<u16>();
        let rec: Vec<(K, u16)> = (0..nrec).map(|j| (K::User(300 + ((i * 3 + j) % 10) as u64), shares[j])).collect();
        if rng.chance(9, 10) { let ix = s.rd_configure_contributor_recipients(&mgr, v, &rec); s.op(tx(vec![ix])).await; g.recips.push(rec.clone()); } else { g.recips.push(vec![]); }
        g.mgrs.push(mgr);
        for (r, _) in &rec { s.reg_ata(r); if rng.chance(19, 20) { s.op(Op::CreateAta { payer: g.payer.clone(), owner: r.clone() }).await; } }
    }
    // the buyer's 2Z, and sometimes direct 2Z waiting in the journal's ATA
    s.reg_ata(&g.buyer);
    s.op(Op::CreateAta { payer: g.payer.clone(), owner: g.buyer.clone() }).await;
    s.op(Op::MintTo(K::Ata(b(&g.buyer), b(&K::Mint)), 1_000_000_000_000_000)).await;
    s.op(Op::CreateAta { payer: g.payer.clone(), owner: K::RdJournal }).await;
    g.universe = users.clone();
    g.universe.extend([K::RdConfig, K::RdJournal, K::RdSwapAuth, K::Tok2z(b(&K::RdSwapAuth)), K::Tok2z(b(&K::RdJournal)), K::Tok2z(b(&K::RdConfig)),
        K::Mint, K::System, K::Token, K::SwapMock, K::Rd, K::ProgData(b(&K::Rd)), K::ProgData(b(&K::Passport)), K::Ata(b(&K::RdJournal), b(&K::Mint)),
        K::Ata(b(&g.buyer), b(&K::Mint)), K::SwapCfg, K::SwapState, fills.clone(), K::WithdrawAuth(b(&K::SwapMock))]);
    for n in &nodes { g.universe.push(K::RdDeposit(b(n))); }
    for v in &svcs { g.universe.push(K::RdContrib(b(v))); }
    for e in 0..4 { g.universe.push(K::RdDist(e)); g.universe.push(K::Tok2z(b(&K::RdDist(e)))); }
    g
}

fn debt_tree(s: &mut Sim, rng: &mut Rng, g: &G) -> (Tree, u64) {
    let n = if g.big { rng.range(8, 40) } else { rng.range(1, 4) } as usize;
    let mut leaves = vec![]; let mut total = 0u64;
    for _ in 0..n {
        let amount = match rng.below(10) { 0 => 0, 1 => 1, 2 => rng.range(1, 100) * 1_000_000_000, _ => rng.range(1, 3_000_000_000) };
        total += amount;
        leaves.push(Leaf::Debt { node: rng.pick(&g.nodes).clone(), amount });
    }
    (s.def_tree(0, leaves), total)
}
fn reward_tree(s: &mut Sim, rng: &mut Rng, g: &G) -> Tree {
    let n = if g.big { rng.range(8, 20) } else { rng.range(1, 4) } as usize;
    let mut rest = 1_000_000_000u32; let mut leaves = vec![];
    for i in 0..n {
        let us = if i + 1 == n && rng.chance(3, 4) { rest } else { rng.below(rest as u64 + 1) as u32 };
        rest -= us;
        let ebr = *rng.pick(&[0u32, 1, 250_000_000, 1_000_000_000]);
        let blocked = rng.chance(1, 12);
        leaves.push(Leaf::Reward { contributor: rng.pick(&g.svcs).clone(), unit_share: us, packed: ebr | if blocked { 1 << 31 } else { 0 } });
    }
    s.def_tree(1, leaves)
}

fn forged(s: &mut Sim, rng: &mut Rng, g: &G, t: &Tree, idx: u32) -> Option<Proof> {
    let p = s.proof(t, idx)?;
    Some(match rng.below(6) {
        0 => s.edit_proof(&p, 0, rng.below(t.leaves.len() as u64 + 2)),
        1 => s.edit_proof(&p, 1, 0),
        2 => s.edit_proof(&p, 2, 0),
        3 => s.edit_proof(&p, 3, rng.below(1000)),
        4 => { let other = rng.below(t.leaves.len() as u64) as u32; s.proof(t, other)? }
        _ => { // a proof from another epoch's tree of the same kind
            let cands: Vec<&Tree> = g.eps.iter().filter_map(|e| if t.kind == 0 { e.debt.as_ref() } else { e.rew.as_ref() }).collect();
            if cands.is_empty() { p } else { let o = (*rng.pick(&cands)).clone(); let i = rng.below(o.leaves.len() as u64) as u32; s.proof(&o, i)? } }
    })
}

async fn run(mut s: Sim, mut rng: Rng, len: usize) -> Sim {
    let profile = rng.below(4);
    let mut g = bootstrap(&mut s, &mut rng).await;
    for _ in 0..len {
        if rng.chance(6, 10) && driver_step(&mut s, &mut rng, &mut g).await { continue; }
        let r = rng.below(106);
        let ne = g.eps.len();
        let pick_ep = |rng: &mut Rng, n: usize| if n == 0 { 0 } else { rng.below(n as u64) as usize };
        let honest = match r {
            0..=7 => { g.clock += match rng.below(6) { 0 => *rng.pick(&[1u64, 59, 60, 61]), 1 => g.calc_grace * 60 - 1, 2 => g.calc_grace.max(g.init_grace) * 60, 3 => g.init_grace * 60 - 1, 4 => 65_536, _ => 3600 };
                       s.op(Op::SetClock(g.clock)).await; continue; }
            8..=12 => { // new epoch
                if rng.chance(1, 5) { let amt = rng.range(1, 5_000_000); s.op(Op::MintTo(K::Ata(b(&K::RdJournal), b(&K::Mint)), amt)).await; }
                let e = ne as u64; let acc = if rng.chance(14, 15) { g.debt_acc.clone() } else { rng.pick(&g.users).clone() };
                let ix = s.rd_initialize_distribution(&acc, &g.payer, e);
                let ix = if rng.chance(1, 6) { fault(&mut rng, ix, &g.universe).0 } else { ix };
                if s.op(tx(vec![ix])).await { g.eps.push(Ep { e, ..Default::default() }); g.universe.push(K::RdDist(e));
                    if rng.chance(2, 3) { g.clock += g.calc_grace.max(g.init_grace) * 60 + rng.below(2); s.op(Op::SetClock(g.clock)).await; } }
                continue; }
            13..=20 if ne > 0 => { // post a debt tree
                let i = pick_ep(&mut rng, ne); let (t, total) = debt_tree(&mut s, &mut rng, &g);
                let total = match rng.below(6) { 0 => total / 2, 1 => total + 7, _ => total };
                let n = if rng.chance(1, 8) { (t.leaves.len() as u32).saturating_sub(1) } else { t.leaves.len() as u32 };
                let root = if rng.chance(1, 12) { [0u8; 32] } else { t.root };
                let ix = s.rd_configure_debt(&g.debt_acc, g.eps[i].e, n, total, root);
                let ix = if rng.chance(1, 6) { fault(&mut rng, ix, &g.universe).0 } else { ix };
                if s.op(tx(vec![ix])).await { g.eps[i].debt = Some(t); g.eps[i].total_debt = total; }
                continue; }
            21..=26 if ne > 0 => { let i = pick_ep(&mut rng, ne); let ix = s.rd_finalize_debt(&g.debt_acc, g.eps[i].e, &g.payer);
                let ix = if rng.chance(1, 6) { fault(&mut rng, ix, &g.universe).0 } else { ix };
                if s.op(tx(vec![ix])).await { g.eps[i].debt_final = true; } continue; }
            27..=40 if ne > 0 => { // pay a leaf
                let i = pick_ep(&mut rng, ne);
                let Some(t) = g.eps[i].debt.clone() else { continue };
                let idx = rng.below(t.leaves.len() as u64) as u32;
                let Leaf::Debt { node, amount } = t.leaves[idx as usize].clone() else { continue };
                let (p, node, amount) = match rng.below(8) {
                    0 => (forged(&mut s, &mut rng, &g, &t, idx), node, amount),
                    1 => (s.proof(&t, idx), node, amount.wrapping_add(1)),
                    2 => (s.proof(&t, idx), rng.pick(&g.nodes).clone(), amount),
                    _ => (s.proof(&t, idx), node, amount) };
                let Some(p) = p else { continue };
                let ix = s.rd_pay(g.eps[i].e, &node, amount, &p);
                let ix = if rng.chance(1, 8) { fault(&mut rng, ix, &g.universe).0 } else { ix };
                if s.op(tx(vec![ix])).await { g.eps[i].settled.insert(idx); } continue; }
            41..=44 if ne > 0 => { let i = pick_ep(&mut rng, ne); let ix = s.rd_enable_write_off(g.eps[i].e, &g.payer);
                let ix = if rng.chance(1, 6) { fault(&mut rng, ix, &g.universe).0 } else { ix };
                if s.op(tx(vec![ix])).await { g.eps[i].wo = true; } continue; }
            45..=52 if ne > 0 => { // write off a leaf (the validator's deposit is sometimes drained first by paying other leaves)
                let i = pick_ep(&mut rng, ne);
                let Some(t) = g.eps[i].debt.clone() else { continue };
                let idx = rng.below(t.leaves.len() as u64) as u32;
                let Leaf::Debt { node, amount } = t.leaves[idx as usize].clone() else { continue };
                let target = if rng.chance(3, 4) { g.eps[i].e + rng.below(2) } else { rng.below(ne as u64 + 1) };
                let p = if rng.chance(1, 8) { forged(&mut s, &mut rng, &g, &t, idx) } else { s.proof(&t, idx) };
                let Some(p) = p else { continue };
                let acc = if rng.chance(9, 10) { g.debt_acc.clone() } else { rng.pick(&g.users).clone() };
                let ix = s.rd_write_off(&acc, g.eps[i].e, &node, target, amount, &p);
                let ix = if rng.chance(1, 8) { fault(&mut rng, ix, &g.universe).0 } else { ix };
                if s.op(tx(vec![ix])).await { g.eps[i].settled.insert(idx); if let Some(te) = g.eps.iter_mut().find(|x| x.e == target) { te.uncollectible += amount; } } continue; }
            53..=58 if ne > 0 => { let i = pick_ep(&mut rng, ne); let t = reward_tree(&mut s, &mut rng, &g);
                let k = if rng.chance(1, 8) { t.leaves.len() as u32 + 1 } else { t.leaves.len() as u32 };
                let root = if rng.chance(1, 8) { [0u8; 32] } else { t.root };
                let ix = s.rd_configure_rewards(&g.rew_acc, g.eps[i].e, k, root);
                let ix = if rng.chance(1, 6) { fault(&mut rng, ix, &g.universe).0 } else { ix };
                if s.op(tx(vec![ix])).await { g.eps[i].rew = Some(t); } continue; }
            59..=63 if ne > 0 => { let i = pick_ep(&mut rng, ne); let ix = s.rd_finalize_rewards(&g.payer, g.eps[i].e);
                let ix = if rng.chance(1, 6) { fault(&mut rng, ix, &g.universe).0 } else { ix };
                if s.op(tx(vec![ix])).await { g.eps[i].rew_final = true; } continue; }
            64..=69 => { // buy SOL through the mock: aim at the collectible debt of the next epoch to sweep
                let sol = match g.eps.iter().find(|x| x.e == g.next_sweep) { Some(ep) if rng.chance(3, 4) => ep.total_debt.saturating_sub(ep.uncollectible), _ => rng.range(0, 5_000_000_000) };
                let z = rng.range(0, 100_000_000_000);
                let ix = s.sw_buy(&g.fills, &K::Ata(b(&g.buyer), b(&K::Mint)), &g.buyer, &g.users[8], z, sol);
                let ix = if rng.chance(1, 6) { fault(&mut rng, ix, &g.universe).0 } else { ix };
                s.op(tx(vec![ix])).await; continue; }
            70..=75 if ne > 0 => { let e = if rng.chance(3, 4) { g.next_sweep } else { rng.below(ne as u64) };
                let ix = s.rd_sweep(e, &g.swap, &g.fills);
                let ix = if rng.chance(1, 6) { fault(&mut rng, ix, &g.universe).0 } else { ix };
                if s.op(tx(vec![ix])).await { if let Some(ep) = g.eps.iter_mut().find(|x| x.e == e) { ep.swept = true; } g.next_sweep += 1; } continue; }
            76..=87 if ne > 0 => { // distribute a reward leaf
                let i = pick_ep(&mut rng, ne);
                let Some(t) = g.eps[i].rew.clone() else { continue };
                let idx = rng.below(t.leaves.len() as u64) as u32;
                let Leaf::Reward { contributor, unit_share, packed } = t.leaves[idx as usize].clone() else { continue };
                let ci = g.svcs.iter().position(|x| *x == contributor).unwrap_or(0);
                let mut recs: Vec<K> = g.recips[ci].iter().map(|x| x.0.clone()).collect();
                if rng.chance(1, 12) { recs.pop(); }
                let (us, ebr) = match rng.below(10) { 0 => (unit_share.wrapping_add(1), packed & 0x3fff_ffff), 1 => (unit_share, (packed & 0x3fff_ffff) ^ 1), _ => (unit_share, packed & 0x3fff_ffff) };
                let p = if rng.chance(1, 8) { forged(&mut s, &mut rng, &g, &t, idx) } else { s.proof(&t, idx) };
                let Some(p) = p else { continue };
                let relayer = if rng.chance(4, 5) { g.relayer.clone() } else { rng.pick(&g.users).clone() };
                let ix = s.rd_distribute(g.eps[i].e, &contributor, &relayer, &recs, us, ebr, &p);
                let ix = if rng.chance(1, 8) { fault(&mut rng, ix, &g.universe).0 } else { ix };
                if s.op(tx(vec![ix])).await { g.eps[i].distributed.insert(idx); } continue; }
            88..=89 if ne > 0 => { let i = pick_ep(&mut rng, ne);
                if let Some(t) = g.eps[i].debt.clone() { let idx = rng.below(t.leaves.len() as u64) as u32;
                    if let (Some(p), Leaf::Debt { node, amount }) = (s.proof(&t, idx), t.leaves[idx as usize].clone()) {
                        let amount = if rng.chance(1, 3) { amount ^ 1 } else { amount }; s.rd_verify_debt(g.eps[i].e, &node, amount, &p) } else { continue } } else { continue } }
            90 => { let v = !g.paused; let ix = s.rd_configure(&g.admin, RdSetting::Paused(v)); if s.op(tx(vec![ix])).await { g.paused = v; } continue; }
            91 => { let st = match rng.below(8) { 0 => RdSetting::CalcGrace(rng.below(4) as u16), 1 => RdSetting::InitGrace(rng.below(4) as u16),
                        2 => RdSetting::RelayLamports(*rng.pick(&[0u32, 5000, 5001, 70_000])), 3 => RdSetting::MinEpochs(rng.below(3) as u8),
                        4 => RdSetting::FeatureActivation(rng.below(4)), 5 => RdSetting::FeeParams(rng.below(10_002) as u16, 0, 0, 10_000, 1),
                        6 => RdSetting::BurnRate(rng.range(0, 1_000_000_001) as u32, rng.below(3) as u32, rng.below(5) as u32, if rng.chance(1, 3) { Some(rng.range(0, 1_000_000_000) as u32) } else { None }),
                        _ => RdSetting::PlaceholderRelay(1) };
                    let who = if rng.chance(5, 6) { g.admin.clone() } else { rng.pick(&g.users).clone() };
                    s.rd_configure(&who, st) }
            92 => { // rotate a role
                let nk = rng.pick(&g.users).clone();
                match rng.below(3) { 0 => { let ix = s.rd_configure(&g.admin, RdSetting::DebtAccountant(nk.clone())); if s.op(tx(vec![ix])).await { g.prev.push(g.debt_acc.clone()); g.debt_acc = nk; } }
                                      1 => { let ix = s.rd_configure(&g.admin, RdSetting::RewardsAccountant(nk.clone())); if s.op(tx(vec![ix])).await { g.prev.push(g.rew_acc.clone()); g.rew_acc = nk; } }
                                      _ => { let ix = s.rd_set_admin(&g.up, &nk); if s.op(tx(vec![ix])).await { g.prev.push(g.admin.clone()); g.admin = nk; } } }
                continue; }
            99..=105 => { authority_probe(&mut s, &mut rng, &mut g).await; continue; }
            98 => { // program-data look-alikes: loader-owned at a foreign address, or canonical bytes under another owner
                let attacker = g.users[11].clone(); let fake = K::User(710 + rng.below(2));
                let owner = if rng.chance(2, 3) { K::Loader } else { rng.pick(&[K::System, K::Rogue(1)]).clone() };
                if rng.chance(1, 5) { // the program's own program-data account with the authority revoked (None), the old key's bytes still
                                      // following the tag as the loader leaves them: the previous authority has no power any more
                    s.forge_progdata_revoked(&attacker, &K::ProgData(b(&K::Rd)), &K::Loader).await;
                    let ix = if rng.chance(1, 2) { s.rd_set_admin(&attacker, &attacker) } else { s.rd_migrate(&attacker) };
                    s.op(tx(vec![ix])).await; continue;
                }
                s.forge_progdata(&attacker, &fake, &owner).await;
                let ix = if rng.chance(1, 2) { s.rd_set_admin(&attacker, &attacker) } else { s.rd_migrate(&attacker) };
                let ix = ix.with_key(0, &if rng.chance(3, 4) { fake } else { K::ProgData(b(&K::Passport)) });
                s.op(tx(vec![ix])).await; continue; }
            93 => { let ci = rng.below(g.svcs.len() as u64) as usize; let v = g.svcs[ci].clone();
                    match rng.below(4) {
                        0 => { let m = rng.pick(&g.users).clone(); let ix = s.rd_set_rewards_manager(&g.cmgr, &v, &m); if s.op(tx(vec![ix])).await { g.prev.push(g.mgrs[ci].clone()); g.mgrs[ci] = m; } continue; }
                        1 => s.rd_configure_contributor_block(&g.mgrs[ci].clone(), &v, rng.chance(1, 2)),
                        2 => { let who = rng.pick(&g.users).clone(); s.rd_configure_contributor_block(&who, &v, true) }
                        _ => { let n = rng.range(0, 9) as usize; let rec: Vec<(K, u16)> = (0..n).map(|j| (K::User(300 + j as u64), if n > 0 { (10_000 / n as u16) + if j == 0 { 10_000 % n as u16 } else { 0 } } else { 0 })).collect();
                               let rec = if rng.chance(1, 3) { rec.into_iter().map(|(k, x)| (k, x ^ (rng.below(2) as u16))).collect() } else { rec };
                               let ix = s.rd_configure_contributor_recipients(&g.mgrs[ci].clone(), &v, &rec);
                               if s.op(tx(vec![ix])).await { for (r, _) in &rec { s.reg_ata(r); } g.recips[ci] = rec; } continue; } } }
            94 => { let n = rng.pick(&g.nodes).clone(); s.op(Op::Airdrop(K::RdDeposit(b(&n)), rng.range(1, 3_000_000_000))).await; continue; }
            95 => { // top-level withdraw attempts (never legitimate)
                let amt = rng.range(0, 2_000_000_000); s.rd_withdraw_sol(&K::SwapMock, &g.users[8], amt) }
            96 => { match rng.below(4) { 0 => s.rd_initialize_program(&g.payer), 1 => s.rd_initialize_journal(&g.payer), 2 => s.rd_initialize_swap_destination(&g.payer),
                                         _ => { let n = rng.pick(&g.nodes).clone(); s.rd_initialize_deposit(&g.payer, &n) } } }
            97 => { let d = rng.pick(&g.users).clone(); let t = K::Tok2z(b(&K::RdDist(rng.below(3)))); s.op(Op::MintTo(t, rng.range(1, 1000))).await;
                    s.op(Op::Airdrop(K::RdJournal, rng.range(1, 1000))).await; let _ = d; continue; }
            _ => { if ne == 0 { continue } let i = pick_ep(&mut rng, ne); let _ = profile; s.rd_finalize_rewards(&g.payer, g.eps[i].e) }
        };
        if rng.chance(1, 8) && !g.paused { // the same instruction while paused (refused, no effect), then the flag is cleared again
            let p = s.rd_configure(&g.admin, RdSetting::Paused(true));
            if s.op(tx(vec![p])).await {
                s.op(tx(vec![honest.clone()])).await;
                let u = s.rd_configure(&g.admin, RdSetting::Paused(false)); s.op(tx(vec![u])).await;
            }
        }
        let ix = if rng.chance(1, 4) { fault(&mut rng, honest, &g.universe).0 } else { honest };
        s.op(tx(vec![ix])).await;
    }
    s
}

/// Guard-directed twins of an honest instruction: the same instruction with one account-list fault (substituted key,
/// cleared signer / writable flag, dropped account, aliased positions), or submitted while the program is paused,
/// each of which must be refused without effect; then the honest instruction itself.
async fn go(s: &mut Sim, rng: &mut Rng, g: &mut G, ix: crate::sim::Ix) -> bool {
    for _ in 0..rng.below(3) {
        let (f, _) = fault(rng, ix.clone(), &g.universe);
        s.op(tx(vec![f])).await;
    }
    if rng.chance(1, 12) && !g.paused {
        let p = s.rd_configure(&g.admin, RdSetting::Paused(true));
        if s.op(tx(vec![p])).await {
            s.op(tx(vec![ix.clone()])).await;
            if let Some(cp) = ix.metas.iter().position(|m| m.0 == K::RdConfig) {   // and with a forged, "unpaused" look-alike config
                let fake = K::User(705); let owner = rng.pick(&[K::Passport, K::Rogue(2), K::System]).clone();
                s.forge_rd_config_ex(&g.users[11].clone(), &fake, &owner, true).await;
                s.op(tx(vec![ix.clone().with_key(cp, &fake)])).await;
            }
            let u = s.rd_configure(&g.admin, RdSetting::Paused(false)); s.op(tx(vec![u])).await;
        }
    }
    if rng.chance(1, 10) { // look-alike attack: a forged config (right tag, wrong owner or wrong address) naming the attacker in every role
        let attacker = g.users[11].clone();
        if let Some(cp) = ix.metas.iter().position(|m| m.0 == K::RdConfig) {
            let fake = K::User(700 + rng.below(3));
            let owner = rng.pick(&[K::Rogue(2), K::System, K::Passport, K::Token]).clone();
            // one time in three the look-alike is owned by the program itself but carries another type's tag (type confusion)
            if rng.chance(1, 3) { s.forge_rd_config_mistagged(&attacker, &fake).await } else { s.forge_rd_config(&attacker, &fake, &owner).await; }
            let mut f = ix.clone().with_key(cp, &fake);
            if let Some(pos) = f.metas.iter().position(|m| m.1) { f = f.with_key(pos, &attacker); }
            s.op(tx(vec![f])).await;
        }
    }
    if ix.term.contains("RDistributeRewards") && ix.metas.len() >= 8 && rng.chance(1, 3) {
        // a ContributorRewards look-alike under another owner, naming the attacker as sole recipient, offered in place of the genuine one
        if let K::RdContrib(svc) = ix.metas[2].0.clone() {
            let attacker = g.users[11].clone(); let fake = K::User(720 + rng.below(2));
            let owner = rng.pick(&[K::Rogue(2), K::System, K::Passport]).clone();
            s.op(Op::CreateAta { payer: g.payer.clone(), owner: attacker.clone() }).await;
            s.forge_contrib_lookalike(&svc, &attacker, &fake, &owner).await;
            let f = ix.clone().with_key(2, &fake).with_key(7, &K::Ata(b(&attacker), b(&K::Mint)));
            s.op(tx(vec![f])).await;
        }
        // one recipient's token account offered in two positions
        if ix.metas.len() >= 9 { let a0 = ix.metas[7].0.clone(); s.op(tx(vec![ix.clone().with_key(8, &a0)])).await; }
    }
    if rng.chance(1, 15) { // a signer of the honest instruction replaced by another wallet that does sign
        if let Some(pos) = ix.metas.iter().position(|m| m.1) { let other = rng.pick(&g.users).clone(); let f = ix.clone().with_key(pos, &other); s.op(tx(vec![f])).await; }
    }
    let replayable = ix.term.contains("RPayDebt") || ix.term.contains("RWriteOff") || ix.term.contains("RDistributeRewards");
    let ok = s.op(tx(vec![ix.clone()])).await;
    if ok && replayable && rng.chance(1, 3) { s.op(tx(vec![ix])).await; }   // the same leaf again: must be refused
    ok
}

/// one honest step that the tracked state says is enabled (the bank decides; the tracking is only used to aim)
async fn driver_step(s: &mut Sim, rng: &mut Rng, g: &mut G) -> bool {
    if rng.chance(1, 10) { // valid reconfiguration of a parameter that existing distributions have snapshotted
        let st = match rng.below(4) { 0 => RdSetting::RelayLamports(*rng.pick(&[5001u32, 6_000, 50_000, 2_500_000_000])),
                                      1 => RdSetting::FeeParams(rng.below(10_001) as u16, 1, 2, 3, rng.below(9) as u32),
                                      2 => { let m = rng.range(1, 3); g.calc_grace = m; RdSetting::CalcGrace(m as u16) }
                                      _ => { let m = rng.range(1, 2); g.min_epochs = m; RdSetting::MinEpochs(m as u8) } };
        let ix = s.rd_configure(&g.admin, st); s.op(tx(vec![ix])).await;
    }
    if g.paused { let ix = s.rd_configure(&g.admin, RdSetting::Paused(false)); if go(s, rng, g, ix).await { g.paused = false; } return true; }
    let ne = g.eps.len();
    if ne == 0 || (ne < 3 && rng.chance(1, 6)) {
        g.clock += g.init_grace * 60; s.op(Op::SetClock(g.clock)).await;
        if rng.chance(1, 3) { let amt = rng.range(1, 5_000_000); s.op(Op::MintTo(K::Ata(b(&K::RdJournal), b(&K::Mint)), amt)).await; }
        let e = ne as u64; let ix = s.rd_initialize_distribution(&g.debt_acc, &g.payer, e);
        if go(s, rng, g, ix).await { g.eps.push(Ep { e, ..Default::default() }); g.universe.push(K::RdDist(e)); g.clock += g.calc_grace * 60; s.op(Op::SetClock(g.clock)).await; }
        return true;
    }
    let i = rng.below(ne as u64) as usize;
    let ep = g.eps[i].clone();
    if ep.debt.is_none() {
        let (t, total) = debt_tree(s, rng, g);
        let ix = s.rd_configure_debt(&g.debt_acc, ep.e, t.leaves.len() as u32, total, t.root);
        if go(s, rng, g, ix).await { g.eps[i].debt = Some(t); g.eps[i].total_debt = total; }
        return true;
    }
    if !ep.debt_final { let ix = s.rd_finalize_debt(&g.debt_acc, ep.e, &g.payer); if go(s, rng, g, ix).await { g.eps[i].debt_final = true; } return true; }
    let t = ep.debt.clone().unwrap();
    let unsettled: Vec<u32> = (0..t.leaves.len() as u32).filter(|x| !ep.settled.contains(x)).collect();
    if !unsettled.is_empty() && (ep.swept && rng.chance(1, 2) || !ep.swept && rng.chance(3, 4)) {
        let idx = *rng.pick(&unsettled);
        let Leaf::Debt { node, amount } = t.leaves[idx as usize].clone() else { return false };
        let poor = node == g.nodes[6] || node == g.nodes[7];
        let Some(p) = s.proof(&t, idx) else { return false };
        if poor && amount > 0 {
            if !ep.wo { let ix = s.rd_enable_write_off(ep.e, &g.payer); if go(s, rng, g, ix).await { g.eps[i].wo = true; } return true; }
            let target = if rng.chance(1, 2) { ep.e } else { ep.e + 1 };
            let ix = s.rd_write_off(&g.debt_acc, ep.e, &node, target, amount, &p);
            if go(s, rng, g, ix).await { g.eps[i].settled.insert(idx); if let Some(te) = g.eps.iter_mut().find(|x| x.e == target) { te.uncollectible += amount; } }
        } else {
            if rng.chance(1, 2) { s.op(Op::Airdrop(K::RdDeposit(b(&node)), amount)).await; }
            let ix = s.rd_pay(ep.e, &node, amount, &p);
            if go(s, rng, g, ix).await { g.eps[i].settled.insert(idx); }
        }
        return true;
    }
    if ep.rew.is_none() {
        let t = reward_tree(s, rng, g);
        let ix = s.rd_configure_rewards(&g.rew_acc, ep.e, t.leaves.len() as u32, t.root);
        if go(s, rng, g, ix).await { g.eps[i].rew = Some(t); }
        return true;
    }
    if !ep.rew_final {
        if (ne as u64) < ep.e + g.min_epochs { return false; }
        let ix = s.rd_finalize_rewards(&g.payer, ep.e); if go(s, rng, g, ix).await { g.eps[i].rew_final = true; } return true;
    }
    if !ep.swept {
        if ep.e != g.next_sweep { return false; }
        let sol = ep.total_debt.saturating_sub(ep.uncollectible);
        if sol > 0 { let z = rng.range(0, 100_000_000_000);
            let ix = s.sw_buy(&g.fills, &K::Ata(b(&g.buyer), b(&K::Mint)), &g.buyer, &g.users[8], z, sol); s.op(tx(vec![ix])).await; }
        let ix = s.rd_sweep(ep.e, &g.swap, &g.fills);
        if go(s, rng, g, ix).await { g.eps[i].swept = true; g.next_sweep += 1; }
        return true;
    }
    let rt = ep.rew.clone().unwrap();
    let todo: Vec<u32> = (0..rt.leaves.len() as u32).filter(|x| !ep.distributed.contains(x)).collect();
    if todo.is_empty() { return false; }
    let idx = *rng.pick(&todo);
    let Leaf::Reward { contributor, unit_share, packed } = rt.leaves[idx as usize].clone() else { return false };
    let ci = g.svcs.iter().position(|x| *x == contributor).unwrap_or(0);
    let recs: Vec<K> = g.recips[ci].iter().map(|x| x.0.clone()).collect();
    let Some(p) = s.proof(&rt, idx) else { return false };
    let ix = s.rd_distribute(ep.e, &contributor, &g.relayer, &recs, unit_share, packed & 0x3fff_ffff, &p);
    if go(s, rng, g, ix).await { g.eps[i].distributed.insert(idx); } else { g.eps[i].distributed.insert(idx); }
    true
}

/// Authority probes (C07): a privileged instruction presented by somebody who is not (or no longer) the role holder —
/// another signer, a previous holder after rotation, the right key without a signature, the default key.
async fn authority_probe(s: &mut Sim, rng: &mut Rng, g: &mut G) {
    let impostor = match rng.below(4) { 0 if !g.prev.is_empty() => rng.pick(&g.prev).clone(), 1 => K::System, _ => rng.pick(&g.users).clone() };
    let ne = g.eps.len() as u64;
    let e = if ne == 0 { 0 } else { rng.below(ne) };
    let ci = rng.below(g.svcs.len() as u64) as usize; let svc = g.svcs[ci].clone();
    let strip = rng.chance(1, 4);   // right key, no signature
    let kind = rng.below(12);
    let who = |right: &K| if strip { right.clone() } else { impostor.clone() };
    let (ix, pos) = match kind {
        0 => (s.rd_configure(&who(&g.admin), RdSetting::CalcGrace(2)), 1usize),
        1 => (s.rd_configure(&who(&g.admin), RdSetting::Paused(rng.chance(1, 2))), 1),
        2 => (s.rd_initialize_distribution(&who(&g.debt_acc), &g.payer, ne), 1),
        3 => { let t = s.def_tree(0, vec![Leaf::Debt { node: g.nodes[0].clone(), amount: 5 }]); (s.rd_configure_debt(&who(&g.debt_acc), e, 1, 5, t.root), 1) }
        4 => (s.rd_finalize_debt(&who(&g.debt_acc), e, &g.payer), 1),
        5 => { let t = s.def_tree(1, vec![Leaf::Reward { contributor: svc.clone(), unit_share: 1_000_000_000, packed: 0 }]); (s.rd_configure_rewards(&who(&g.rew_acc), e, 1, t.root), 1) }
        6 => (s.rd_set_rewards_manager(&who(&g.cmgr), &svc, &impostor), 1),
        7 => (s.rd_configure_contributor_block(&who(&g.mgrs[ci].clone()), &svc, rng.chance(1, 2)), 2),
        8 => (s.rd_configure_contributor_recipients(&who(&g.mgrs[ci].clone()), &svc, &[(K::User(300), 10_000)]), 2),
        9 => (s.rd_set_admin(&who(&g.up), &impostor), 1),
        10 => (s.rd_migrate(&who(&g.up)), 1),
        _ => { let ep = g.eps.iter().find(|x| x.debt.is_some()).cloned();
               match ep { Some(ep) => { let t = ep.debt.unwrap(); let Leaf::Debt { node, amount } = t.leaves[0].clone() else { return };
                                        let Some(p) = s.proof(&t, 0) else { return }; (s.rd_write_off(&who(&g.debt_acc), ep.e, &node, ep.e, amount, &p), 1) }
                          None => return } }
    };
    let ix = if strip { ix.with_signer(pos, false) } else { ix };
    s.op(tx(vec![ix])).await;
}
