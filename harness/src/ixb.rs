//! Instruction builders: each returns the real bytes + real (SDK-built) account metas mapped back to structured keys,
//! together with the Gallina term of the same instruction.
use crate::keys::{b, K};
use crate::sim::{Ix, Sim};
use doublezero_passport as pp;
use doublezero_program_tools::instruction::try_build_instruction;
use doublezero_revenue_distribution as rd;
use rd::instruction::{account as ra, RevenueDistributionInstructionData as RI};
use rd::types::DoubleZeroEpoch;
use solana_instruction::{AccountMeta, Instruction};
use solana_pubkey::Pubkey;
use svm_hash::merkle::MerkleProof;

#[derive(Clone, Debug)]
pub enum Leaf { Debt { node: K, amount: u64 }, Reward { contributor: K, unit_share: u32, packed: u32 } }
#[derive(Clone, Debug)]
pub struct Tree { pub kind: u8, pub leaves: Vec<Leaf>, pub name: String, pub root: [u8; 32] }
#[derive(Clone)]
pub struct Proof { pub real: MerkleProof, pub term: String }

impl Sim {
    fn metas_back(&mut self, real: &[AccountMeta]) -> Vec<(K, bool, bool)> {
        real.iter().map(|m| (self.keys.k(&m.pubkey), m.is_signer, m.is_writable)).collect()
    }
    fn finish(&mut self, prog: K, ix: Instruction, term: String) -> Ix {
        let metas = self.metas_back(&ix.accounts);
        Ix { prog, bytes: ix.data, term, metas }
    }
    pub fn reg_epoch(&mut self, e: u64) { self.keys.pk(&K::RdDist(e)); self.keys.pk(&K::Tok2z(b(&K::RdDist(e)))); }
    pub fn reg_node(&mut self, n: &K) { self.keys.pk(n); self.keys.pk(&K::RdDeposit(b(n))); }
    pub fn reg_svc(&mut self, s: &K) { self.keys.pk(s); self.keys.pk(&K::RdContrib(b(s))); self.keys.pk(&K::PpRequest(b(s))); }
    pub fn reg_ata(&mut self, o: &K) { self.keys.pk(o); self.keys.pk(&K::Ata(b(o), b(&K::Mint))); }

    // ---------------- trees and proofs ----------------
    pub fn leaf_term(l: &Leaf) -> String {
        match l { Leaf::Debt { node, amount } => format!("LDebt {} {}", node, amount),
                  Leaf::Reward { contributor, unit_share, packed } => format!("LReward {} {} {}", contributor, unit_share, packed) }
    }
    fn debt_pod(&mut self, l: &Leaf) -> rd::types::SolanaValidatorDebt {
        match l { Leaf::Debt { node, amount } => rd::types::SolanaValidatorDebt { node_id: self.keys.pk(node), amount: *amount }, _ => unreachable!() }
    }
    fn reward_pod(&mut self, l: &Leaf) -> rd::types::RewardShare {
        match l { Leaf::Reward { contributor, unit_share, packed } =>
            rd::types::RewardShare { contributor_key: self.keys.pk(contributor), unit_share: *unit_share, remaining_bytes: packed.to_le_bytes() }, _ => unreachable!() }
    }
    pub fn def_tree(&mut self, kind: u8, leaves: Vec<Leaf>) -> Tree {
        let name = format!("T{}", self.defs.len());   // unique: defs only grows
        let lt: Vec<String> = leaves.iter().map(Self::leaf_term).collect();
        self.defs.push(format!("let {} := ([{}] : list leafdata) in", name, lt.join("; ")));
        let root = if kind == 0 {
            let pods: Vec<_> = leaves.iter().map(|l| self.debt_pod(l)).collect();
            svm_hash::merkle::merkle_root_from_indexed_pod_leaves(&pods, Some(rd::types::SolanaValidatorDebt::LEAF_PREFIX))
        } else {
            let pods: Vec<_> = leaves.iter().map(|l| self.reward_pod(l)).collect();
            svm_hash::merkle::merkle_root_from_indexed_pod_leaves(&pods, Some(rd::types::RewardShare::LEAF_PREFIX))
        };
        let root = root.map(|h| h.to_bytes()).unwrap_or([0u8; 32]);
        if root != [0u8; 32] && !self.hashes.contains_key(&root) {
            self.defs.push(format!("let R{} := tree_root {} {} in", name, if kind == 0 { "PRE_DEBT" } else { "PRE_REWARD" }, name));
            self.hashes.insert(root, format!("R{}", name)); }
        Tree { kind, leaves, name, root }
    }
    pub fn proof(&mut self, t: &Tree, idx: u32) -> Option<Proof> {
        let real = if t.kind == 0 {
            let pods: Vec<_> = t.leaves.iter().map(|l| self.debt_pod(l)).collect();
            MerkleProof::from_indexed_pod_leaves(&pods, idx, Some(rd::types::SolanaValidatorDebt::LEAF_PREFIX))
        } else {
            let pods: Vec<_> = t.leaves.iter().map(|l| self.reward_pod(l)).collect();
            MerkleProof::from_indexed_pod_leaves(&pods, idx, Some(rd::types::RewardShare::LEAF_PREFIX))
        }?;
        Some(Proof { real, term: format!("(proof_for {} {} {})", if t.kind == 0 { "PRE_DEBT" } else { "PRE_REWARD" }, t.name, idx) })
    }
    /// proof edits: 0 = set index, 1 = unindexed, 2 = drop last sibling, 3 = push an opaque sibling
    pub fn edit_proof(&mut self, p: &Proof, edit: u8, arg: u64) -> Proof {
        let mut bytes = borsh::to_vec(&p.real).unwrap();
        let n = u32::from_le_bytes(bytes[0..4].try_into().unwrap()) as usize;
        let sib_end = 4 + 33 * n;
        let term;
        match edit {
            0 => { bytes.truncate(sib_end); bytes.push(1); bytes.extend_from_slice(&(arg as u32).to_le_bytes()); term = format!("(pf_set_index (Some {}) {})", arg as u32, p.term); }
            1 => { bytes.truncate(sib_end); bytes.push(0); term = format!("(pf_set_index None {})", p.term); }
            2 if n > 0 => { let tail = bytes[sib_end..].to_vec(); bytes.truncate(sib_end - 33); bytes[0..4].copy_from_slice(&((n - 1) as u32).to_le_bytes());
                            bytes.extend_from_slice(&tail); term = format!("(pf_drop_last {})", p.term); }
            3 => { let h = solana_sdk::hash::hashv(&[b"opaque-sibling", &arg.to_le_bytes()]).to_bytes(); let ht = self.hash_term(&h);
                   let tail = bytes[sib_end..].to_vec(); bytes.truncate(sib_end); bytes.extend_from_slice(&h); bytes.push((arg & 1) as u8);
                   bytes[0..4].copy_from_slice(&((n + 1) as u32).to_le_bytes()); bytes.extend_from_slice(&tail);
                   term = format!("(pf_push ({}, {}) {})", ht, if arg & 1 == 0 { "SLeft" } else { "SRight" }, p.term); }
            _ => { term = p.term.clone(); }
        }
        Proof { real: borsh::from_slice(&bytes).unwrap(), term }
    }

    // ---------------- revenue distribution ----------------
    fn rd_ix<A: Into<Vec<AccountMeta>>>(&mut self, accts: A, data: RI, term: String) -> Ix {
        let ix = try_build_instruction(&rd::ID, accts, &data).unwrap();
        self.finish(K::Rd, ix, format!("(IxRd ({}))", term))
    }
    pub fn rd_initialize_program(&mut self, payer: &K) -> Ix {
        let p = self.keys.pk(payer);
        self.rd_ix(ra::InitializeProgramAccounts::new(&p, &rd::DOUBLEZERO_MINT_KEY), RI::InitializeProgram, "RInitializeProgram".into())
    }
    pub fn rd_set_admin(&mut self, authority: &K, admin: &K) -> Ix {
        let (a, ad) = (self.keys.pk(authority), self.keys.pk(admin));
        self.rd_ix(ra::SetAdminAccounts::new(&rd::ID, &a), RI::SetAdmin(ad), format!("RSetAdmin {}", admin))
    }
    pub fn rd_migrate(&mut self, authority: &K) -> Ix {
        let a = self.keys.pk(authority);
        self.rd_ix(ra::SetAdminAccounts::new(&rd::ID, &a), RI::MigrateProgramAccounts, "RMigrate".into())
    }
    pub fn rd_configure(&mut self, admin: &K, s: RdSetting) -> Ix {
        use rd::instruction::{ProgramConfiguration as PC, ProgramFeatureConfiguration, ProgramFlagConfiguration};
        let a = self.keys.pk(admin);
        let (real, term) = match &s {
            RdSetting::Paused(x) => (PC::Flag(ProgramFlagConfiguration::IsPaused(*x)), format!("RSPaused {}", x)),
            RdSetting::DebtAccountant(k) => (PC::DebtAccountant(self.keys.pk(k)), format!("RSDebtAccountant {}", k)),
            RdSetting::RewardsAccountant(k) => (PC::RewardsAccountant(self.keys.pk(k)), format!("RSRewardsAccountant {}", k)),
            RdSetting::ContributorManager(k) => (PC::ContributorManager(self.keys.pk(k)), format!("RSContributorManager {}", k)),
            RdSetting::PlaceholderKey(k) => (PC::PlaceholderKey(self.keys.pk(k)), format!("RSPlaceholderKey {}", k)),
            RdSetting::SwapProgram(k) => { self.keys.pk(&K::WithdrawAuth(b(k))); (PC::Sol2zSwapProgram(self.keys.pk(k)), format!("RSSwapProgram {}", k)) }
            RdSetting::FeeParams(a1, a2, a3, a4, f) => (PC::SolanaValidatorFeeParameters { base_block_rewards_pct: *a1, priority_block_rewards_pct: *a2,
                inflation_rewards_pct: *a3, jito_tips_pct: *a4, fixed_sol_amount: *f, _unused: [0; 28] }, format!("RSFeeParams {} {} {} {} {}", a1, a2, a3, a4, f)),
            RdSetting::CalcGrace(m) => (PC::CalculationGracePeriodMinutes(*m), format!("RSCalcGrace {}", m)),
            RdSetting::BurnRate(l, ti, tl, init) => (PC::CommunityBurnRateParameters { limit: *l, dz_epochs_to_increasing: *ti, dz_epochs_to_limit: *tl, initial_rate: *init },
                format!("RSBurnRate {} {} {} {}", l, ti, tl, match init { Some(i) => format!("(Some {})", i), None => "None".into() })),
            RdSetting::PlaceholderRelay(n) => (PC::PlaceholderRelayLamports(*n), format!("RSPlaceholderRelay {}", n)),
            RdSetting::RelayLamports(n) => (PC::DistributeRewardsRelayLamports(*n), format!("RSRelayLamports {}", n)),
            RdSetting::MinEpochs(n) => (PC::MinimumEpochDurationToFinalizeRewards(*n), format!("RSMinEpochs {}", n)),
            RdSetting::InitGrace(m) => (PC::DistributionInitializationGracePeriodMinutes(*m), format!("RSInitGrace {}", m)),
            RdSetting::FeatureActivation(e) => (PC::FeatureActivation { feature: ProgramFeatureConfiguration::SolanaValidatorDebtWriteOff,
                activation_epoch: DoubleZeroEpoch::new(*e) }, format!("RSFeatureActivation {}", e)),
        };
        self.rd_ix(ra::ConfigureProgramAccounts::new(&a), RI::ConfigureProgram(real), format!("RConfigureProgram ({})", term))
    }
    pub fn rd_initialize_journal(&mut self, payer: &K) -> Ix {
        let p = self.keys.pk(payer);
        self.rd_ix(ra::InitializeJournalAccounts::new(&p, &rd::DOUBLEZERO_MINT_KEY), RI::InitializeJournal, "RInitializeJournal".into())
    }
    pub fn rd_initialize_distribution(&mut self, accountant: &K, payer: &K, epoch: u64) -> Ix {
        self.reg_epoch(epoch);
        let (a, p) = (self.keys.pk(accountant), self.keys.pk(payer));
        self.rd_ix(ra::InitializeDistributionAccounts::new(&a, &p, DoubleZeroEpoch::new(epoch), &rd::DOUBLEZERO_MINT_KEY), RI::InitializeDistribution, "RInitializeDistribution".into())
    }
    pub fn rd_configure_debt(&mut self, accountant: &K, epoch: u64, n: u32, debt: u64, root: [u8; 32]) -> Ix {
        self.reg_epoch(epoch);
        let a = self.keys.pk(accountant); let rt = self.hash_term(&root);
        self.rd_ix(ra::ConfigureDistributionDebtAccounts::new(&a, DoubleZeroEpoch::new(epoch)),
            RI::ConfigureDistributionDebt { total_validators: n, total_debt: debt, merkle_root: svm_hash::sha2::Hash::new_from_array(root) },
            format!("RConfigureDebt {} {} {}", n, debt, rt))
    }
    pub fn rd_finalize_debt(&mut self, accountant: &K, epoch: u64, payer: &K) -> Ix {
        self.reg_epoch(epoch);
        let (a, p) = (self.keys.pk(accountant), self.keys.pk(payer));
        self.rd_ix(ra::FinalizeDistributionDebtAccounts::new(&a, DoubleZeroEpoch::new(epoch), &p), RI::FinalizeDistributionDebt, "RFinalizeDebt".into())
    }
    pub fn rd_configure_rewards(&mut self, accountant: &K, epoch: u64, k: u32, root: [u8; 32]) -> Ix {
        self.reg_epoch(epoch);
        let a = self.keys.pk(accountant); let rt = self.hash_term(&root);
        self.rd_ix(ra::ConfigureDistributionRewardsAccounts::new(&a, DoubleZeroEpoch::new(epoch)),
            RI::ConfigureDistributionRewards { total_contributors: k, merkle_root: svm_hash::sha2::Hash::new_from_array(root) }, format!("RConfigureRewards {} {}", k, rt))
    }
    pub fn rd_finalize_rewards(&mut self, payer: &K, epoch: u64) -> Ix {
        self.reg_epoch(epoch);
        let p = self.keys.pk(payer);
        self.rd_ix(ra::FinalizeDistributionRewardsAccounts::new(&p, DoubleZeroEpoch::new(epoch)), RI::FinalizeDistributionRewards, "RFinalizeRewards".into())
    }
    pub fn rd_distribute(&mut self, epoch: u64, svc: &K, relayer: &K, recipients: &[K], unit_share: u32, ebr: u32, proof: &Proof) -> Ix {
        self.reg_epoch(epoch); self.reg_svc(svc);
        for r in recipients { self.reg_ata(r); }
        let (s, rl) = (self.keys.pk(svc), self.keys.pk(relayer));
        let rk: Vec<Pubkey> = recipients.iter().map(|r| self.keys.pk(r)).collect();
        let rr: Vec<&Pubkey> = rk.iter().collect();
        self.rd_ix(ra::DistributeRewardsAccounts::new(DoubleZeroEpoch::new(epoch), &s, &rd::DOUBLEZERO_MINT_KEY, &rl, &rr),
            RI::DistributeRewards { unit_share, economic_burn_rate: ebr, proof: proof.real.clone() }, format!("RDistributeRewards {} {} {}", unit_share, ebr, proof.term))
    }
    pub fn rd_initialize_contributor(&mut self, payer: &K, svc: &K) -> Ix {
        self.reg_svc(svc);
        let (p, s) = (self.keys.pk(payer), self.keys.pk(svc));
        self.rd_ix(ra::InitializeContributorRewardsAccounts::new(&p, &s), RI::InitializeContributorRewards(s), format!("RInitializeContributor {}", svc))
    }
    pub fn rd_set_rewards_manager(&mut self, cm: &K, svc: &K, mgr: &K) -> Ix {
        self.reg_svc(svc);
        let (c, s, m) = (self.keys.pk(cm), self.keys.pk(svc), self.keys.pk(mgr));
        self.rd_ix(ra::SetRewardsManagerAccounts::new(&c, &s), RI::SetRewardsManager(m), format!("RSetRewardsManager {}", mgr))
    }
    pub fn rd_configure_contributor_recipients(&mut self, mgr: &K, svc: &K, recips: &[(K, u16)]) -> Ix {
        self.reg_svc(svc);
        let (m, s) = (self.keys.pk(mgr), self.keys.pk(svc));
        let real: Vec<(Pubkey, u16)> = recips.iter().map(|(k, sh)| (self.keys.pk(k), *sh)).collect();
        let t: Vec<String> = recips.iter().map(|(k, sh)| format!("({}, {})", k, sh)).collect();
        self.rd_ix(ra::ConfigureContributorRewardsAccounts::new(&m, &s),
            RI::ConfigureContributorRewards(rd::instruction::ContributorRewardsConfiguration::Recipients(real)), format!("RConfigureContributor (CSRecipients [{}])", t.join("; ")))
    }
    pub fn rd_configure_contributor_block(&mut self, mgr: &K, svc: &K, block: bool) -> Ix {
        self.reg_svc(svc);
        let (m, s) = (self.keys.pk(mgr), self.keys.pk(svc));
        self.rd_ix(ra::ConfigureContributorRewardsAccounts::new(&m, &s),
            RI::ConfigureContributorRewards(rd::instruction::ContributorRewardsConfiguration::IsSetRewardsManagerBlocked(block)), format!("RConfigureContributor (CSBlock {})", block))
    }
    pub fn rd_verify_debt(&mut self, epoch: u64, node: &K, amount: u64, proof: &Proof) -> Ix {
        self.reg_epoch(epoch);
        let n = self.keys.pk(node);
        self.rd_ix(ra::VerifyDistributionMerkleRootAccounts::new(DoubleZeroEpoch::new(epoch)),
            RI::VerifyDistributionMerkleRoot { kind: rd::instruction::DistributionMerkleRootKind::SolanaValidatorDebt(rd::types::SolanaValidatorDebt { node_id: n, amount }), proof: proof.real.clone() },
            format!("RVerifyRoot (RKDebt {} {}) {}", node, amount, proof.term))
    }
    pub fn rd_verify_reward(&mut self, epoch: u64, c: &K, unit_share: u32, packed: u32, proof: &Proof) -> Ix {
        self.reg_epoch(epoch);
        let ck = self.keys.pk(c);
        self.rd_ix(ra::VerifyDistributionMerkleRootAccounts::new(DoubleZeroEpoch::new(epoch)),
            RI::VerifyDistributionMerkleRoot { kind: rd::instruction::DistributionMerkleRootKind::RewardShare(rd::types::RewardShare { contributor_key: ck, unit_share, remaining_bytes: packed.to_le_bytes() }), proof: proof.real.clone() },
            format!("RVerifyRoot (RKReward {} {} {}) {}", c, unit_share, packed, proof.term))
    }
    pub fn rd_initialize_deposit(&mut self, payer: &K, node: &K) -> Ix {
        self.reg_node(node);
        let (p, n) = (self.keys.pk(payer), self.keys.pk(node));
        self.rd_ix(ra::InitializeSolanaValidatorDepositAccounts::new(&p, &n), RI::InitializeSolanaValidatorDeposit(n), format!("RInitializeDeposit {}", node))
    }
    pub fn rd_pay(&mut self, epoch: u64, node: &K, amount: u64, proof: &Proof) -> Ix {
        self.reg_epoch(epoch); self.reg_node(node);
        let n = self.keys.pk(node);
        self.rd_ix(ra::PaySolanaValidatorDebtAccounts::new(DoubleZeroEpoch::new(epoch), &n), RI::PaySolanaValidatorDebt { amount, proof: proof.real.clone() },
            format!("RPayDebt {} {}", amount, proof.term))
    }
    pub fn rd_enable_write_off(&mut self, epoch: u64, payer: &K) -> Ix {
        self.reg_epoch(epoch);
        let p = self.keys.pk(payer);
        self.rd_ix(ra::EnableSolanaValidatorDebtWriteOffAccounts::new(DoubleZeroEpoch::new(epoch), &p), RI::EnableSolanaValidatorDebtWriteOff, "REnableWriteOff".into())
    }
    pub fn rd_write_off(&mut self, accountant: &K, epoch: u64, node: &K, target: u64, amount: u64, proof: &Proof) -> Ix {
        self.reg_epoch(epoch); self.reg_epoch(target); self.reg_node(node);
        let (a, n) = (self.keys.pk(accountant), self.keys.pk(node));
        self.rd_ix(ra::WriteOffSolanaValidatorDebtAccounts::new(&a, DoubleZeroEpoch::new(epoch), &n, DoubleZeroEpoch::new(target)),
            RI::WriteOffSolanaValidatorDebt { amount, proof: proof.real.clone() }, format!("RWriteOff {} {}", amount, proof.term))
    }
    pub fn rd_initialize_swap_destination(&mut self, payer: &K) -> Ix {
        let p = self.keys.pk(payer);
        self.rd_ix(ra::InitializeSwapDestinationAccounts::new(&p, &rd::DOUBLEZERO_MINT_KEY), RI::InitializeSwapDestination, "RInitializeSwapDestination".into())
    }
    pub fn rd_sweep(&mut self, epoch: u64, swap: &K, fills: &K) -> Ix {
        self.reg_epoch(epoch);
        let (s, f) = (self.keys.pk(swap), self.keys.pk(fills));
        // the swap program's own config/state addresses are unknown structured keys unless it is the mock
        self.rd_ix(ra::SweepDistributionTokensAccounts::new(DoubleZeroEpoch::new(epoch), &s, &f), RI::SweepDistributionTokens, "RSweep".into())
    }
    pub fn rd_withdraw_sol(&mut self, swap: &K, dest: &K, amount: u64) -> Ix {
        let (s, d) = (self.keys.pk(swap), self.keys.pk(dest));
        self.keys.pk(&K::WithdrawAuth(b(swap)));
        self.rd_ix(ra::WithdrawSolAccounts::new(&s, &d), RI::WithdrawSol(amount), format!("RWithdrawSol {}", amount))
    }

    // ---------------- passport ----------------
    fn pp_ix<A: Into<Vec<AccountMeta>>>(&mut self, accts: A, data: pp::instruction::PassportInstructionData, term: String) -> Ix {
        let ix = try_build_instruction(&pp::ID, accts, &data).unwrap();
        self.finish(K::Passport, ix, format!("(IxPassport ({}))", term))
    }
    pub fn pp_initialize(&mut self, payer: &K) -> Ix {
        let p = self.keys.pk(payer);
        self.pp_ix(pp::instruction::account::InitializeProgramAccounts::new(&p), pp::instruction::PassportInstructionData::InitializeProgram, "PInitializeProgram".into())
    }
    pub fn pp_set_admin(&mut self, authority: &K, admin: &K) -> Ix {
        let (a, ad) = (self.keys.pk(authority), self.keys.pk(admin));
        self.pp_ix(pp::instruction::account::SetAdminAccounts::new(&pp::ID, &a), pp::instruction::PassportInstructionData::SetAdmin(ad), format!("PSetAdmin {}", admin))
    }
    pub fn pp_configure(&mut self, admin: &K, s: PpSetting) -> Ix {
        use pp::instruction::{ProgramConfiguration as PC, ProgramFlagConfiguration as PF};
        let a = self.keys.pk(admin);
        let (real, term) = match &s {
            PpSetting::Paused(x) => (PC::Flag(PF::IsPaused(*x)), format!("PSFlag (PFIsPaused {})", x)),
            PpSetting::RequestPaused(x) => (PC::Flag(PF::IsRequestAccessPaused(*x)), format!("PSFlag (PFIsRequestAccessPaused {})", x)),
            PpSetting::Sentinel(k) => (PC::DoubleZeroLedgerSentinel(self.keys.pk(k)), format!("PSSentinel {}", k)),
            PpSetting::Deposit(d, f) => (PC::AccessRequestDeposit { request_deposit_lamports: *d, request_fee_lamports: *f }, format!("PSAccessRequestDeposit {} {}", d, f)),
            PpSetting::BackupLimit(l) => (PC::SolanaValidatorBackupIdsLimit(*l), format!("PSBackupIdsLimit {}", l)),
        };
        self.pp_ix(pp::instruction::account::ConfigureProgramAccounts::new(&a), pp::instruction::PassportInstructionData::ConfigureProgram(real), format!("PConfigureProgram ({})", term))
    }
    pub fn access_mode(&mut self, validator: &K, svc: &K, sig: u64, backups: Option<&[K]>) -> pp::instruction::AccessMode {
        let mut s = [0u8; 64];
        for i in 0..8 { s[i * 8..i * 8 + 8].copy_from_slice(&sig.to_le_bytes()); }
        let att = pp::instruction::SolanaValidatorAttestation { validator_id: self.keys.pk(validator), service_key: self.keys.pk(svc), ed25519_signature: s };
        match backups { None => pp::instruction::AccessMode::SolanaValidator(att),
            Some(bk) => pp::instruction::AccessMode::SolanaValidatorWithBackupIds { attestation: att, backup_ids: bk.iter().map(|k| self.keys.pk(k)).collect() } }
    }
    pub fn pp_request(&mut self, payer: &K, svc: &K, mode: &pp::instruction::AccessMode) -> Ix {
        self.reg_svc(svc);
        let (p, s) = (self.keys.pk(payer), self.keys.pk(svc));
        let mt = self.access_mode_term(mode);
        self.pp_ix(pp::instruction::account::RequestAccessAccounts::new(&p, &s), pp::instruction::PassportInstructionData::RequestAccess(mode.clone()), format!("PRequestAccess {}", mt))
    }
    pub fn pp_grant(&mut self, sentinel: &K, svc: &K, beneficiary: &K) -> Ix {
        self.reg_svc(svc);
        let (se, rq, be) = (self.keys.pk(sentinel), self.keys.pk(&K::PpRequest(b(svc))), self.keys.pk(beneficiary));
        self.pp_ix(pp::instruction::account::GrantAccessAccounts::new(&se, &rq, &be), pp::instruction::PassportInstructionData::GrantAccess, "PGrantAccess".into())
    }
    pub fn pp_deny(&mut self, sentinel: &K, svc: &K) -> Ix {
        self.reg_svc(svc);
        let (se, rq) = (self.keys.pk(sentinel), self.keys.pk(&K::PpRequest(b(svc))));
        self.pp_ix(pp::instruction::account::DenyAccessAccounts::new(&se, &rq), pp::instruction::PassportInstructionData::DenyAccess, "PDenyAccess".into())
    }

    // ---------------- mock swap, system, token, rogue ----------------
    pub fn sw_buy(&mut self, fills: &K, src: &K, authority: &K, dest: &K, z: u64, sol: u64) -> Ix {
        let (f, s, a, d) = (self.keys.pk(fills), self.keys.pk(src), self.keys.pk(authority), self.keys.pk(dest));
        let ix = mock_swap_sol_2z::instruction::buy_sol(&f, &s, &a, &d, z, sol);
        self.finish(K::SwapMock, ix, format!("(IxSwap (SBuySol {} {}))", z, sol))
    }
    pub fn sw_init_registry(&mut self, fills: &K) -> Ix {
        let f = self.keys.pk(fills);
        let ix = try_build_instruction(&mock_swap_sol_2z::ID, vec![AccountMeta::new(f, false)], &mock_swap_sol_2z::instruction::MockSwapSol2zInstructionData::InitializeFillsRegistry).unwrap();
        self.finish(K::SwapMock, ix, "(IxSwap SInitializeFillsRegistry)".into())
    }
    pub fn sys_transfer(&mut self, from: &K, to: &K, amt: u64) -> Ix {
        let ix = solana_system_interface::instruction::transfer(&self.keys.pk(from), &self.keys.pk(to), amt);
        self.finish(K::System, ix, format!("(IxSysTransfer {})", amt))
    }
    pub fn sys_create(&mut self, from: &K, to: &K, lam: u64, space: u64, owner: &K) -> Ix {
        let o = self.keys.pk(owner);
        let ix = solana_system_interface::instruction::create_account(&self.keys.pk(from), &self.keys.pk(to), lam, space, &o);
        self.finish(K::System, ix, format!("(IxSysCreate {} {} {})", lam, space, owner))
    }
    pub fn tok_transfer(&mut self, src: &K, dst: &K, auth: &K, amt: u64) -> Ix {
        let ix = spl_token_interface::instruction::transfer(&spl_token_interface::ID, &self.keys.pk(src), &self.keys.pk(dst), &self.keys.pk(auth), &[], amt).unwrap();
        self.finish(K::Token, ix, format!("(IxTokTransfer {})", amt))
    }
    pub fn tok_transfer_checked(&mut self, src: &K, mint: &K, dst: &K, auth: &K, amt: u64, dec: u8) -> Ix {
        let ix = spl_token_interface::instruction::transfer_checked(&spl_token_interface::ID, &self.keys.pk(src), &self.keys.pk(mint), &self.keys.pk(dst), &self.keys.pk(auth), &[], amt, dec).unwrap();
        self.finish(K::Token, ix, format!("(IxTokTransferChecked {} {})", amt, dec))
    }
    pub fn tok_burn(&mut self, acc: &K, mint: &K, auth: &K, amt: u64) -> Ix {
        let ix = spl_token_interface::instruction::burn(&spl_token_interface::ID, &self.keys.pk(acc), &self.keys.pk(mint), &self.keys.pk(auth), &[], amt).unwrap();
        self.finish(K::Token, ix, format!("(IxTokBurn {})", amt))
    }
    /// wrap an instruction into a CPI issued by the harness-only program `rogue`
    pub fn via_rogue(&mut self, rogue: u64, inner: &Ix) -> Ix {
        let mut metas = vec![(inner.prog.clone(), false, false)];
        metas.extend(inner.metas.iter().cloned());
        let mut bytes = vec![0u8]; bytes.extend_from_slice(&inner.bytes);
        Ix { prog: K::Rogue(rogue), bytes, term: format!("(IxRogueCpi {})", inner.term), metas }
    }
    pub fn rogue_buy(&mut self, rogue: u64, src: &K, auth: &K, dest: &K, z: u64, sol: u64) -> Ix {
        let wa = K::WithdrawAuth(b(&K::Rogue(rogue)));
        let swap_dest = K::Tok2z(b(&K::RdSwapAuth));
        for k in [&wa, &swap_dest] { self.keys.pk(k); }
        let metas = vec![(src.clone(), false, true), (K::Mint, false, false), (swap_dest, false, true), (auth.clone(), true, false), (K::RdConfig, false, false),
            (wa, false, false), (K::RdJournal, false, true), (dest.clone(), false, true), (K::Token, false, false), (K::Rd, false, false)];
        let mut bytes = vec![1u8]; bytes.extend_from_slice(&z.to_le_bytes()); bytes.extend_from_slice(&sol.to_le_bytes());
        Ix { prog: K::Rogue(rogue), bytes, term: format!("(IxRogueBuy {} {})", z, sol), metas }
    }
}

#[derive(Clone, Debug)]
pub enum RdSetting { Paused(bool), DebtAccountant(K), RewardsAccountant(K), ContributorManager(K), PlaceholderKey(K), SwapProgram(K),
    FeeParams(u16, u16, u16, u16, u32), CalcGrace(u16), BurnRate(u32, u32, u32, Option<u32>), PlaceholderRelay(u32), RelayLamports(u32),
    MinEpochs(u8), InitGrace(u16), FeatureActivation(u64) }
#[derive(Clone, Debug)]
pub enum PpSetting { Paused(bool), RequestPaused(bool), Sentinel(K), Deposit(u64, u64), BackupLimit(u16) }

/// instruction edits used to build the faulty twin of an honest instruction
impl Ix {
    pub fn with_key(mut self, pos: usize, k: &K) -> Ix { if pos < self.metas.len() { self.metas[pos].0 = k.clone(); } self }
    pub fn with_signer(mut self, pos: usize, s: bool) -> Ix { if pos < self.metas.len() { self.metas[pos].1 = s; } self }
    pub fn with_writable(mut self, pos: usize, w: bool) -> Ix { if pos < self.metas.len() { self.metas[pos].2 = w; } self }
    pub fn drop_last(mut self) -> Ix { self.metas.pop(); self }
}
