//! Structured keys (mirror of coq/theories/Keys.v) and their mapping to real Pubkeys by the REAL derivations.
use solana_pubkey::Pubkey;
use solana_sdk::signature::{Keypair, Signer};
use std::collections::HashMap;
use std::fmt;

#[derive(Clone, PartialEq, Eq, Hash, Debug)]
pub enum K {
    User(u64), System, Token, AtaProg, Loader, Rd, Passport, SwapMock, Rogue(u64), Mint, OtherMint(u64),
    RdConfig, RdJournal, RdDist(u64), RdDeposit(Box<K>), RdContrib(Box<K>), RdSwapAuth, Tok2z(Box<K>),
    WithdrawAuth(Box<K>), Ata(Box<K>, Box<K>), PpConfig, PpRequest(Box<K>), ProgData(Box<K>), SwapCfg, SwapState,
}
impl fmt::Display for K {
    fn fmt(&self, f: &mut fmt::Formatter<'_>) -> fmt::Result {
        match self {
            K::User(n) => write!(f, "(KUser {})", n), K::System => write!(f, "KSystem"), K::Token => write!(f, "KToken"),
            K::AtaProg => write!(f, "KAtaProg"), K::Loader => write!(f, "KLoader"), K::Rd => write!(f, "KRd"),
            K::Passport => write!(f, "KPassport"), K::SwapMock => write!(f, "KSwapMock"), K::Rogue(n) => write!(f, "(KRogue {})", n),
            K::Mint => write!(f, "KMint"), K::OtherMint(n) => write!(f, "(KOtherMint {})", n),
            K::RdConfig => write!(f, "KRdConfig"), K::RdJournal => write!(f, "KRdJournal"), K::RdDist(e) => write!(f, "(KRdDist {})", e),
            K::RdDeposit(k) => write!(f, "(KRdDeposit {})", k), K::RdContrib(k) => write!(f, "(KRdContrib {})", k),
            K::RdSwapAuth => write!(f, "KRdSwapAuth"), K::Tok2z(k) => write!(f, "(KTok2z {})", k),
            K::WithdrawAuth(k) => write!(f, "(KWithdrawAuth {})", k), K::Ata(o, m) => write!(f, "(KAta {} {})", o, m),
            K::PpConfig => write!(f, "KPpConfig"), K::PpRequest(k) => write!(f, "(KPpRequest {})", k),
            K::ProgData(k) => write!(f, "(KProgData {})", k), K::SwapCfg => write!(f, "KSwapCfg"), K::SwapState => write!(f, "KSwapState"),
        }
    }
}
pub fn b(k: &K) -> Box<K> { Box::new(k.clone()) }

pub const ROGUE_BASE: [u8; 32] = [0x52, 0x6f, 0x67, 0x75, 0x65, 0, 0, 0, 0, 0, 0, 0, 0, 0, 0, 0, 0, 0, 0, 0, 0, 0, 0, 0, 0, 0, 0, 0, 0, 0, 0, 0];
pub fn rogue_id(n: u64) -> Pubkey { let mut a = ROGUE_BASE; a[24..32].copy_from_slice(&n.to_le_bytes()); Pubkey::new_from_array(a) }

pub fn user_keypair(n: u64) -> Keypair {
    // deterministic ed25519 key from the user number
    let h = solana_sdk::hash::hashv(&[b"dz-verif-user", &n.to_le_bytes()]);
    Keypair::new_from_array(h.to_bytes())
}

#[derive(Default)]
pub struct Keys { rev: HashMap<Pubkey, K>, unknown: u64 }
impl Keys {
    pub fn new() -> Self { let mut k = Keys { rev: HashMap::new(), unknown: 1_000_000 };
        for x in [K::System, K::Token, K::AtaProg, K::Loader, K::Rd, K::Passport, K::SwapMock, K::Mint, K::RdConfig, K::RdJournal,
                  K::RdSwapAuth, K::PpConfig, K::SwapCfg, K::SwapState, K::Tok2z(b(&K::RdConfig)), K::Tok2z(b(&K::RdJournal)),
                  K::Tok2z(b(&K::RdSwapAuth)), K::ProgData(b(&K::Rd)), K::ProgData(b(&K::Passport)), K::WithdrawAuth(b(&K::SwapMock)),
                  K::Ata(b(&K::RdJournal), b(&K::Mint))] { k.pk(&x); }
        k }
    /// real address of a structured key (registered for the reverse direction)
    pub fn pk(&mut self, k: &K) -> Pubkey {
        use doublezero_revenue_distribution as rd;
        let p = match k {
            K::User(n) => user_keypair(*n).pubkey(),
            K::System => Pubkey::default(),
            K::Token => spl_token_interface::ID,
            K::AtaProg => spl_associated_token_account_interface::program::ID,
            K::Loader => doublezero_program_tools::BPF_LOADER_UPGRADEABLE_ID,
            K::Rd => rd::ID, K::Passport => doublezero_passport::ID, K::SwapMock => mock_swap_sol_2z::ID,
            K::Rogue(n) => rogue_id(*n),
            K::Mint => rd::DOUBLEZERO_MINT_KEY,
            K::OtherMint(n) => Pubkey::new_from_array(solana_sdk::hash::hashv(&[b"dz-verif-mint", &n.to_le_bytes()]).to_bytes()),
            K::RdConfig => rd::state::ProgramConfig::find_address().0,
            K::RdJournal => rd::state::Journal::find_address().0,
            K::RdDist(e) => rd::state::Distribution::find_address(rd::types::DoubleZeroEpoch::new(*e)).0,
            K::RdDeposit(n) => { let n = self.pk(n); rd::state::SolanaValidatorDeposit::find_address(&n).0 }
            K::RdContrib(s) => { let s = self.pk(s); rd::state::ContributorRewards::find_address(&s).0 }
            K::RdSwapAuth => rd::state::find_swap_authority_address().0,
            K::Tok2z(o) => { let o = self.pk(o); rd::state::find_2z_token_pda_address(&o).0 }
            K::WithdrawAuth(p) => { let p = self.pk(p); rd::state::find_withdraw_sol_authority_address(&p).0 }
            K::Ata(o, m) => { let o = self.pk(o); let m = self.pk(m);
                spl_associated_token_account_interface::address::get_associated_token_address(&o, &m) }
            K::PpConfig => doublezero_passport::state::ProgramConfig::find_address().0,
            K::PpRequest(s) => { let s = self.pk(s); doublezero_passport::state::AccessRequest::find_address(&s).0 }
            K::ProgData(p) => { let p = self.pk(p); doublezero_program_tools::get_program_data_address(&p).0 }
            K::SwapCfg => Pubkey::find_program_address(&[b"system_config"], &mock_swap_sol_2z::ID).0,
            K::SwapState => Pubkey::find_program_address(&[b"state"], &mock_swap_sol_2z::ID).0,
        };
        self.rev.entry(p).or_insert_with(|| k.clone());
        p
    }
    /// structured key of a real address found in account data; unknown addresses get fresh user numbers
    pub fn k(&mut self, p: &Pubkey) -> K {
        if let Some(k) = self.rev.get(p) { return k.clone(); }
        self.unknown += 1;
        let k = K::User(self.unknown);
        self.rev.insert(*p, k.clone());
        k
    }
}
