//! SplitMix64: every random choice of the harness derives from one state seeded by VERIF_SEED.
#[derive(Clone)]
pub struct Rng(pub u64);
impl Rng {
    pub fn new(seed: u64) -> Self { Rng(seed.wrapping_mul(0x9E3779B97F4A7C15) ^ 0xD1B54A32D192ED03) }
    pub fn fork(&mut self, tag: u64) -> Rng { let a = self.next(); Rng(a ^ tag.wrapping_mul(0xBF58476D1CE4E5B9)) }
    pub fn next(&mut self) -> u64 {
        self.0 = self.0.wrapping_add(0x9E3779B97F4A7C15);
        let mut z = self.0;
        z = (z ^ (z >> 30)).wrapping_mul(0xBF58476D1CE4E5B9);
        z = (z ^ (z >> 27)).wrapping_mul(0x94D049BB133111EB);
        z ^ (z >> 31)
    }
    pub fn below(&mut self, n: u64) -> u64 { if n == 0 { 0 } else { self.next() % n } }
    pub fn range(&mut self, lo: u64, hi: u64) -> u64 { lo + self.below(hi - lo + 1) }
    pub fn chance(&mut self, num: u64, den: u64) -> bool { self.below(den) < num }
    pub fn pick<'a, T>(&mut self, xs: &'a [T]) -> &'a T { &xs[self.below(xs.len() as u64) as usize] }
    /// boundary-dense u64
    pub fn u64_edge(&mut self) -> u64 {
        match self.below(10) {
            0 => 0, 1 => 1, 2 => u64::MAX, 3 => u64::MAX - self.below(4),
            4 => self.below(16), 5 => 1u64 << self.below(64), 6 => (1u64 << self.below(64)).wrapping_sub(1),
            7 => self.below(1_000_000), _ => self.next(),
        }
    }
}
