//! The real processors under solana-program-test's bank: scenario operations, execution, observation.
use crate::keys::{b, rogue_id, user_keypair, Keys, K};
use doublezero_passport as pp;
use doublezero_revenue_distribution as rd;
use solana_account_info::AccountInfo;
use solana_instruction::{AccountMeta, Instruction};
use solana_program_error::{ProgramError, ProgramResult};
use solana_program_pack::Pack;
use solana_program_test::{processor, ProgramTest, ProgramTestContext};
use solana_pubkey::Pubkey;
use solana_sdk::{
    account::Account,
    clock::Clock,
    message::{v0::Message, VersionedMessage},
    signature::{Keypair, Signer},
    transaction::VersionedTransaction,
};
use std::collections::HashMap;

pub const UPGRADE_AUTHORITY: u64 = 9001;
pub const MINT_AUTHORITY: u64 = 9002;
pub const DEQUEUE_SELECTOR: [u8; 8] = [146, 69, 6, 12, 174, 95, 136, 61];

/// Harness-only adversarial program (two ids are registered).
///  data[0] == 0 : re-issue data[1..] as a CPI to accounts[0] with accounts[1..] (flags as seen)
///  data[0] == 1 : "rogue buy": transfer_checked(z) of accounts[0..4] then RD WithdrawSol(sol) with accounts[4..8],
///                 signed by this program's withdraw authority
///  data[..8] == DequeueFills selector : reply scripted by accounts[2].data
fn rogue(pid: &Pubkey, accounts: &[AccountInfo], data: &[u8]) -> ProgramResult {
    if data.len() >= 8 && data[..8] == DEQUEUE_SELECTOR {
        let script = accounts.get(2).ok_or(ProgramError::NotEnoughAccountKeys)?.try_borrow_data()?.to_vec();
        match script.first() {
            Some(1) if script.len() >= 25 => solana_cpi::set_return_data(&script[1..25]),
            Some(2) if script.len() >= 3 => { let n = u16::from_le_bytes([script[1], script[2]]) as usize; solana_cpi::set_return_data(&vec![7u8; n]); }
            Some(3) if script.len() >= 2 => solana_cpi::set_return_data(&script[1..]),     // the bytes as scripted, whatever their length
            _ => {}
        }
        return Ok(());
    }
    match data.first() {
        Some(0) => {
            let target = accounts.first().ok_or(ProgramError::NotEnoughAccountKeys)?.key;
            let metas: Vec<AccountMeta> = accounts[1..].iter()
                .map(|a| AccountMeta { pubkey: *a.key, is_signer: a.is_signer, is_writable: a.is_writable }).collect();
            let ix = Instruction { program_id: *target, accounts: metas, data: data[1..].to_vec() };
            solana_cpi::invoke_signed_unchecked(&ix, accounts, &[])
        }
        Some(1) if data.len() == 17 && accounts.len() >= 8 => {
            let z = u64::from_le_bytes(data[1..9].try_into().unwrap());
            let sol = u64::from_le_bytes(data[9..17].try_into().unwrap());
            let mut t = spl_token_interface::instruction::transfer_checked(&spl_token_interface::ID, accounts[0].key, accounts[1].key,
                accounts[2].key, accounts[3].key, &[], z, rd::DOUBLEZERO_MINT_DECIMALS).unwrap();
            // the program the TransferChecked-shaped instruction is sent to is the one the caller lists at position 8 (honestly: SPL Token)
            if let Some(tp) = accounts.get(8) { t.program_id = *tp.key; }
            solana_cpi::invoke_signed_unchecked(&t, accounts, &[])?;
            let w = doublezero_program_tools::instruction::try_build_instruction(&rd::ID,
                rd::instruction::account::WithdrawSolAccounts { program_config_key: *accounts[4].key, withdraw_sol_authority_key: *accounts[5].key,
                    journal_key: *accounts[6].key, sol_destination_key: *accounts[7].key },
                &rd::instruction::RevenueDistributionInstructionData::WithdrawSol(sol)).unwrap();
            let (_, bump) = rd::state::find_withdraw_sol_authority_address(pid);
            solana_cpi::invoke_signed_unchecked(&w, accounts, &[&[rd::state::WITHDRAW_SOL_AUTHORITY_SEED_PREFIX, &[bump]]])
        }
        Some(12) => Ok(()),    // bytes shaped like SPL Token's TransferChecked: accepted, nothing done (a token-program look-alike)
        _ => Err(ProgramError::InvalidInstructionData),
    }
}

/// A panic inside a processor (index out of bounds, RefCell double borrow, `unwrap` on None, …) aborts the instruction
/// on SBF; natively it is caught here and reported as a failed instruction.
macro_rules! guarded {
    ($name:ident, $f:path) => {
        fn $name(pid: &Pubkey, accounts: &[AccountInfo], data: &[u8]) -> ProgramResult {
            match std::panic::catch_unwind(std::panic::AssertUnwindSafe(|| $f(pid, accounts, data))) {
                Ok(r) => r,
                Err(_) => Err(ProgramError::Custom(0xDEAD)),
            }
        }
    };
}
guarded!(rd_entry, rd::verif_process_instruction);
guarded!(pp_entry, pp::verif_process_instruction);
guarded!(sw_entry, mock_swap_sol_2z::verif_process_instruction);
guarded!(rogue_entry, rogue);

pub fn install_hooks() {
    if std::env::var("DZ_DEBUG").is_ok() { std::panic::set_hook(Box::new(|i| { eprintln!("#panic {}", i); })); } else { std::panic::set_hook(Box::new(|_| {})); }
    solana_msg::native_hooks::set(|_m| {});
    solana_instruction::syscalls::native_hooks::set(solana_instruction::syscalls::native_hooks::Hooks {
        stack_height: || solana_sysvar::program_stubs::sol_get_stack_height() as usize,
        processed_sibling_instruction: |i| solana_sysvar::program_stubs::sol_get_processed_sibling_instruction(i),
    });
}

#[derive(Clone)]
pub struct Ix { pub prog: K, pub bytes: Vec<u8>, pub term: String, pub metas: Vec<(K, bool, bool)> }
#[derive(Clone)]
pub enum Op {
    Tx { signers: Vec<K>, ixs: Vec<Ix> },
    SetClock(u64),
    Airdrop(K, u64),
    /// copy the current account `from` to address `to`, optionally with another owner (look-alikes)
    ForgeCopy { from: K, to: K, owner: Option<K> },
    /// raw fixture
    ForgeRaw { to: K, owner: K, lamports: u64, data: Vec<u8> },
    MintTo(K, u64),
    CreateAta { payer: K, owner: K },
}

pub struct Sim {
    pub ctx: ProgramTestContext,
    pub keys: Keys,
    pub hashes: HashMap<[u8; 32], String>,
    pub n: u64,
    pub bh: solana_sdk::hash::Hash,
    pub last_bh: std::time::Instant,
    pub lines: Vec<String>,
    pub defs: Vec<String>,
    pub tx_count: usize,
    pub ok_count: usize,
    pub kinds: HashMap<String, (usize, usize)>,
    pub last: HashMap<K, String>,
}

fn rent(len: usize) -> u64 { (128 + len as u64) * 6960 }

/// a flag read from the raw little-endian flags word of an account (not through the crate's accessor, which is code under test)
fn raw_bit<T: bytemuck::Pod>(flags: &T, i: usize) -> bool { let b = bytemuck::bytes_of(flags); (b[i / 8] >> (i % 8)) & 1 == 1 }

impl Sim {
    pub async fn new(id: u64) -> Sim {
        let mut pt = ProgramTest::new("doublezero_revenue_distribution", rd::ID, processor!(rd_entry));
        pt.add_program("doublezero_passport", pp::ID, processor!(pp_entry));
        pt.add_program("mock_swap_sol_2z", mock_swap_sol_2z::ID, processor!(sw_entry));
        pt.add_program("rogue1", rogue_id(1), processor!(rogue_entry));
        pt.add_program("rogue2", rogue_id(2), processor!(rogue_entry));
        let mut keys = Keys::new();
        let mut init: Vec<(K, Account)> = vec![];
        let auth = user_keypair(UPGRADE_AUTHORITY).pubkey();
        keys.pk(&K::User(UPGRADE_AUTHORITY)); keys.pk(&K::User(MINT_AUTHORITY)); keys.pk(&K::Rogue(1)); keys.pk(&K::Rogue(2));
        for prog in [K::Rd, K::Passport] {
            let data = bincode::serialize(&solana_loader_v3_interface::state::UpgradeableLoaderState::ProgramData {
                slot: 0, upgrade_authority_address: Some(auth) }).unwrap();
            let a = Account { lamports: rent(data.len()), data, owner: doublezero_program_tools::BPF_LOADER_UPGRADEABLE_ID, ..Default::default() };
            init.push((K::ProgData(b(&prog)), a));
        }
        let mint = spl_token_interface::state::Mint { mint_authority: Some(user_keypair(MINT_AUTHORITY).pubkey()).into(), supply: 0, decimals: 8,
            is_initialized: true, freeze_authority: None.into() };
        let mut md = vec![0u8; spl_token_interface::state::Mint::LEN];
        mint.pack_into_slice(&mut md);
        init.push((K::Mint, Account { lamports: rent(md.len()), data: md, owner: spl_token_interface::ID, ..Default::default() }));
        for (k, a) in init.iter() { let p = keys.pk(k); pt.add_account(p, a.clone()); }
        let ctx = pt.start_with_context().await;
        let bh = ctx.last_blockhash;
        let mut hashes = HashMap::new();
        hashes.insert([0u8; 32], "null_hash".to_string());
        let mut s = Sim { ctx, keys, hashes, n: id << 32, bh, last_bh: std::time::Instant::now(), lines: vec![], defs: vec![], tx_count: 0, ok_count: 0, kinds: HashMap::new(), last: HashMap::new() };
        // the model starts from the empty world: introduce the fixtures as forge operations
        for (k, _) in init.iter() {
            let t = s.observe(k).await;
            s.lines.push(format!("(OForge {} {}, true, [({}, Now {})])", k, t, k, t));
            s.last.insert(k.clone(), t);
        }
        // the program accounts exist in the bank from the start; the model is told their balance and size (read from the bank) so that
        // an instruction naming one of them as a lamport recipient meets the same rent-state rule in both. They are never observed
        // afterwards (nothing in the property texts speaks about them), hence the empty observation list.
        for k in [K::Token, K::AtaProg, K::Rd, K::Passport, K::SwapMock, K::Rogue(1), K::Rogue(2)] {
            let p = s.keys.pk(&k);
            if let Some(a) = s.ctx.banks_client.get_account(p).await.unwrap() {
                s.lines.push(format!("(OForge {} {{| lamports := {}; owner := KLoader; alen := {}; data := DEmpty |}}, true, [])", k, a.lamports, a.data.len()));
            }
        }
        s.op(Op::Airdrop(K::User(UPGRADE_AUTHORITY), 10_000_000_000)).await;
        s.op(Op::Airdrop(K::User(MINT_AUTHORITY), 10_000_000_000)).await;
        s
    }

    pub fn hash_term(&mut self, h: &[u8; 32]) -> String {
        if let Some(t) = self.hashes.get(h) { return t.clone(); }
        let n = 1_000_000 + self.hashes.len();
        let t = format!("(HOpaque {})", n);
        self.hashes.insert(*h, t.clone());
        t
    }
    pub fn kterm(&mut self, p: &Pubkey) -> String { format!("{}", self.keys.k(p)) }

    async fn submit(&mut self, ixs: &[Instruction], signers: &[Keypair]) -> bool {
        for attempt in 0..4 {
            self.n += 1;
            if attempt > 0 || self.n % 64 == 0 || self.last_bh.elapsed().as_secs() >= 8 {
                self.bh = self.ctx.get_new_latest_blockhash().await.unwrap();
                self.last_bh = std::time::Instant::now();
            }
            let payer = self.ctx.payer.insecure_clone();
            let mut all = ixs.to_vec();
            // uniqueness: the isolated fee payer sends itself a running counter
            all.push(solana_system_interface::instruction::transfer(&payer.pubkey(), &payer.pubkey(), self.n & 0xffff_ffff));
            let msg = match Message::try_compile(&payer.pubkey(), &all, &[], self.bh) { Ok(m) => m, Err(_) => return false };
            let mut s: Vec<&Keypair> = vec![&payer];
            for k in signers { s.push(k); }
            let tx = match VersionedTransaction::try_new(VersionedMessage::V0(msg), &s) { Ok(t) => t, Err(_) => return false };
            match self.ctx.banks_client.process_transaction(tx).await {
                Ok(()) => return true,
                Err(solana_program_test::BanksClientError::TransactionError(e)) => {
                    use solana_sdk::transaction::TransactionError as TE;
                    if std::env::var("DZ_DEBUG").is_ok() { eprintln!("#err sim={} line={} {:?}", self.n >> 32, self.lines.len(), e); }
                    match e { TE::BlockhashNotFound | TE::AlreadyProcessed => continue, _ => return false }
                }
                Err(solana_program_test::BanksClientError::SimulationError { .. }) => return false,
                Err(_) => continue,   // transport / server trouble (e.g. expired blockhash inside the server): retry with a fresh blockhash
            }
        }
        panic!("harness infrastructure failure: the bank did not answer a transaction after 4 attempts");
    }

    /// decode one account into a Gallina `acct` term
    pub async fn observe(&mut self, k: &K) -> String {
        let p = self.keys.pk(k);
        let a = self.ctx.banks_client.get_account(p).await.unwrap();
        match a { None => "empty_acct".to_string(), Some(a) => self.acct_term(&a) }
    }
    pub fn acct_term(&mut self, a: &Account) -> String {
        let owner = self.keys.k(&a.owner);
        let d = self.data_term(&owner, &a.data);
        format!("{{| lamports := {}; owner := {}; alen := {}; data := {} |}}", a.lamports, owner, a.data.len(), d)
    }
    fn data_term(&mut self, owner: &K, data: &[u8]) -> String {
        use doublezero_program_tools::zero_copy::checked_from_bytes_with_discriminator as zc;
        if data.iter().all(|x| *x == 0) { return "DEmpty".into(); }
        match owner {
            K::Rd => {
                if let Some((c, _)) = zc::<rd::state::ProgramConfig>(data) { return self.rd_config_term(c); }
                if let Some((j, _)) = zc::<rd::state::Journal>(data) {
                    return format!("(DJournal {{| j_total_sol := {}; j_total_2z := {}; j_swap_dest_balance := {}; j_swapped_sol := {}; j_next_sweep := {}; j_lifetime_2z := {} |}})",
                        j.total_sol_balance, j.total_2z_balance, j.swap_2z_destination_balance, j.swapped_sol_amount,
                        j.next_dz_epoch_to_sweep_tokens.value(), j.lifetime_swapped_2z_amount());
                }
                if let Some((d, tail)) = zc::<rd::state::Distribution>(data) { return self.dist_term(d, tail); }
                if let Some((d, _)) = zc::<rd::state::SolanaValidatorDeposit>(data) {
                    let node = self.kterm(&d.node_id);
                    return format!("(DDeposit {{| dp_node := {}; dp_written_off := {} |}})", node, d.written_off_sol_debt);
                }
                if let Some((c, _)) = zc::<rd::state::ContributorRewards>(data) {
                    let m = self.kterm(&c.rewards_manager_key); let s = self.kterm(&c.service_key);
                    let rec: Vec<String> = c.recipient_shares.active_iter().map(|r| { let k = self.keys.k(&r.recipient_key); format!("({}, {})", k, u16::from(r.share)) }).collect();
                    return format!("(DContrib {{| cr_manager := {}; cr_service := {}; cr_blocked := {}; cr_recipients := [{}] |}})",
                        m, s, raw_bit(&c.flags, rd::state::ContributorRewards::FLAG_IS_SET_REWARDS_MANAGER_BLOCKED_BIT), rec.join("; "));
                }
                self.raw(data)
            }
            K::Passport => {
                if let Some((c, _)) = zc::<pp::state::ProgramConfig>(data) {
                    let ad = self.kterm(&c.admin_key); let se = self.kterm(&c.sentinel_key);
                    return format!("(DPpConfig {{| pc_paused := {}; pc_request_paused := {}; pc_admin := {}; pc_sentinel := {}; pc_deposit := {}; pc_fee := {}; pc_backup_limit := {} |}})",
                        raw_bit(&c.flags, pp::state::ProgramConfig::FLAG_IS_PAUSED_BIT), raw_bit(&c.flags, pp::state::ProgramConfig::FLAG_IS_REQUEST_ACCESS_PAUSED_BIT), ad, se, c.request_deposit_lamports, c.request_fee_lamports, c.solana_validator_backup_ids_limit);
                }
                if let Some((r, _)) = zc::<pp::state::AccessRequest>(data) {
                    let mode: Option<pp::instruction::AccessMode> = borsh::BorshDeserialize::deserialize(&mut &r.encoded_access_mode[..]).ok();
                    let svc = self.kterm(&r.service_key); let ben = self.kterm(&r.rent_beneficiary_key);
                    let m = match mode { Some(m) => self.access_mode_term(&m), None => return self.raw(data) };
                    return format!("(DAccessReq {{| ar_service := {}; ar_beneficiary := {}; ar_fee := {}; ar_mode := {} |}})", svc, ben, r.request_fee_lamports, m);
                }
                self.raw(data)
            }
            K::SwapMock => {
                if let Some((r, _)) = zc::<mock_swap_sol_2z::state::FillsRegistry>(data) {
                    let sl: Vec<String> = r.fills.iter().map(|f| format!("{{| sol_in := {}; z_out := {} |}}", f.amount_sol_in, f.amount_2z_out)).collect();
                    return format!("(DFills {{| slots := [{}]; head := {}%nat; count := {}%nat |}})", sl.join("; "), r.head, r.fills_count);
                }
                self.raw(data)
            }
            K::Token => {
                if data.len() == spl_token_interface::state::Account::LEN {
                    if let Ok(t) = spl_token_interface::state::Account::unpack(data) {
                        let m = self.kterm(&t.mint); let o = self.kterm(&t.owner);
                        return format!("(DToken {{| t_mint := {}; t_owner := {}; t_amount := {} |}})", m, o, t.amount);
                    }
                }
                if data.len() == spl_token_interface::state::Mint::LEN {
                    if let Ok(m) = spl_token_interface::state::Mint::unpack(data) {
                        return format!("(DMint {{| m_supply := {}; m_decimals := {} |}})", m.supply, m.decimals);
                    }
                }
                self.raw(data)
            }
            K::Loader => {
                match bincode::deserialize::<solana_loader_v3_interface::state::UpgradeableLoaderState>(data) {
                    Ok(solana_loader_v3_interface::state::UpgradeableLoaderState::ProgramData { upgrade_authority_address, .. }) =>
                        match upgrade_authority_address { Some(a) => { let t = self.kterm(&a); format!("(DProgData (Some {}))", t) } None => "(DProgData None)".into() },
                    _ => self.raw(data),
                }
            }
            K::Rogue(_) => {
                match data.first() {
                    Some(1) if data.len() >= 25 => format!("(DScript (Some (RTriple {} {} {})))", u64::from_le_bytes(data[1..9].try_into().unwrap()),
                        u64::from_le_bytes(data[9..17].try_into().unwrap()), u64::from_le_bytes(data[17..25].try_into().unwrap())),
                    Some(2) if data.len() >= 3 => format!("(DScript (Some (RMalformed {})))", u16::from_le_bytes([data[1], data[2]])),
                    // kind 3 returns data[1..] verbatim; the scripts only use it with a length other than 24 (a reply with trailing bytes)
                    Some(3) if data.len() >= 2 && data.len() != 25 => format!("(DScript (Some (RMalformed {})))", data.len() - 1),
                    _ => "(DScript None)".into(),
                }
            }
            _ => self.raw(data),
        }
    }
    fn raw(&mut self, data: &[u8]) -> String {
        let h = solana_sdk::hash::hash(data).to_bytes();
        format!("(DRaw {})", u64::from_le_bytes(h[..8].try_into().unwrap()) >> 8)
    }
    pub fn access_mode_term(&mut self, m: &pp::instruction::AccessMode) -> String {
        let att = |s: &mut Sim, a: &pp::instruction::SolanaValidatorAttestation| {
            let v = s.kterm(&a.validator_id); let sv = s.kterm(&a.service_key);
            format!("{{| at_validator := {}; at_service := {}; at_sig := {} |}}", v, sv, u64::from_le_bytes(a.ed25519_signature[..8].try_into().unwrap()))
        };
        match m {
            pp::instruction::AccessMode::SolanaValidator(a) => format!("(AMValidator {})", att(self, a)),
            pp::instruction::AccessMode::SolanaValidatorWithBackupIds { attestation, backup_ids } => {
                let a = att(self, attestation);
                let l: Vec<String> = backup_ids.iter().map(|k| self.kterm(k)).collect();
                format!("(AMValidatorWithBackups {} [{}])", a, l.join("; "))
            }
        }
    }
    fn rd_config_term(&mut self, c: &rd::state::ProgramConfig) -> String {
        let dp = &c.distribution_parameters;
        let br: [u32; 6] = bytemuck::cast(dp.community_burn_rate_parameters);
        let f = &dp.solana_validator_fee_parameters;
        let (a, d, r, m, s) = (self.kterm(&c.admin_key), self.kterm(&c.debt_accountant_key), self.kterm(&c.rewards_accountant_key),
            self.kterm(&c.contributor_manager_key), self.kterm(&c.sol_2z_swap_program_id));
        format!("(DConfig {{| c_paused := {}; c_migrated := {}; c_next_epoch := {}; c_has_swap_auth_bump := {}; c_has_swap_dest_bump := {}; c_has_withdraw_bump := {}; \
c_admin := {}; c_debt_accountant := {}; c_rewards_accountant := {}; c_contributor_manager := {}; c_swap_program := {}; c_calc_grace_min := {}; c_init_grace_min := {}; \
c_min_epochs := {}; c_burn := mkP {} {} {} {} {} {}; c_fees := {}; c_relay := {}; c_last_init_ts := {}; c_writeoff_activation := {} |}})",
            raw_bit(&c.flags, rd::state::ProgramConfig::FLAG_IS_PAUSED_BIT), raw_bit(&c.flags, rd::state::ProgramConfig::FLAG_IS_MIGRATED_BIT), c.next_completed_dz_epoch.value(), c.swap_authority_bump_seed != 0, c.swap_destination_2z_bump_seed != 0,
            c.withdraw_sol_authority_bump_seed != 0, a, d, r, m, s, dp.calculation_grace_period_minutes, dp.initialization_grace_period_minutes,
            dp.minimum_epoch_duration_to_finalize_rewards, br[0], br[1], br[2], br[3], br[4], br[5], fee_term(f),
            c.relay_parameters.distribute_rewards_lamports, c.last_initialized_distribution_timestamp, c.debt_write_off_feature_activation_epoch.value())
    }
    fn dist_term(&mut self, d: &rd::state::Distribution, tail: &[u8]) -> String {
        let dr = self.hash_term(&d.solana_validator_debt_merkle_root.to_bytes());
        let rr = self.hash_term(&d.rewards_merkle_root.to_bytes());
        let t: Vec<String> = tail.iter().map(|x| x.to_string()).collect();
        format!("(DDist {{| d_epoch := {}; d_debt_final := {}; d_rewards_final := {}; d_swept := {}; d_writeoff_enabled := {}; d_cbr := {}; d_fees := {}; \
d_debt_root := {}; d_total_validators := {}; d_payments_count := {}; d_total_debt := {}; d_collected_sol := {}; d_rewards_root := {}; d_total_contributors := {}; \
d_distributed_count := {}; d_prepaid_2z := {}; d_swept_2z := {}; d_uncollectible := {}; d_debt_start := {}; d_debt_end := {}; d_rew_start := {}; d_rew_end := {}; \
d_relay := {}; d_calc_allowed_ts := {}; d_distributed_2z := {}; d_burned_2z := {}; d_wo_start := {}; d_wo_end := {}; d_writeoff_count := {} |}} [{}])",
            d.dz_epoch.value(), raw_bit(&d.flags, rd::state::Distribution::FLAG_IS_DEBT_CALCULATION_FINALIZED_BIT), raw_bit(&d.flags, rd::state::Distribution::FLAG_IS_REWARDS_CALCULATION_FINALIZED_BIT),
            raw_bit(&d.flags, rd::state::Distribution::FLAG_HAS_SWEPT_2Z_TOKENS_BIT), raw_bit(&d.flags, rd::state::Distribution::FLAG_IS_SOLANA_VALIDATOR_DEBT_WRITE_OFF_ENABLED_BIT), u32::from(d.community_burn_rate), fee_term(&d.solana_validator_fee_parameters), dr,
            d.total_solana_validators, d.solana_validator_payments_count, d.total_solana_validator_debt, d.collected_solana_validator_payments, rr,
            d.total_contributors, d.distributed_rewards_count, d.collected_prepaid_2z_payments, d.collected_2z_converted_from_sol, d.uncollectible_sol_debt,
            d.processed_solana_validator_debt_start_index, d.processed_solana_validator_debt_end_index, d.processed_rewards_start_index,
            d.processed_rewards_end_index, d.distribute_rewards_relay_lamports, d.calculation_allowed_timestamp, d.distributed_2z_amount, d.burned_2z_amount,
            d.processed_solana_validator_debt_write_off_start_index, d.processed_solana_validator_debt_write_off_end_index,
            d.solana_validator_write_off_count, t.join("; "))
    }

    fn op_keys(&self, op: &Op) -> Vec<K> {
        let mut v: Vec<K> = vec![];
        let mut add = |k: &K| { let is_prog = matches!(k, K::System | K::Token | K::AtaProg | K::Loader | K::Rd | K::Passport | K::SwapMock | K::Rogue(_));
            if !is_prog && !v.contains(k) { v.push(k.clone()) } };
        match op {
            Op::Tx { ixs, .. } => for ix in ixs { for (k, _, _) in &ix.metas { add(k); } },
            Op::SetClock(_) => {}
            Op::Airdrop(k, _) | Op::ForgeRaw { to: k, .. } | Op::ForgeCopy { to: k, .. } => add(k),
            Op::MintTo(k, _) => { add(k); add(&K::Mint); }
            Op::CreateAta { payer, owner } => { add(payer); add(&K::Ata(b(owner), b(&K::Mint))); }
        }
        v
    }

    /// run one operation on the bank, record the observation line, return whether it was accepted
    pub async fn op(&mut self, op: Op) -> bool {
        let keys = self.op_keys(&op);
        let (term, ok) = match &op {
            Op::Tx { signers, ixs } => {
                let mut real = vec![]; let mut terms = vec![];
                for ix in ixs {
                    let metas: Vec<AccountMeta> = ix.metas.iter().map(|(k, s, w)| AccountMeta { pubkey: self.keys.pk(k), is_signer: *s, is_writable: *w }).collect();
                    let mt: Vec<String> = ix.metas.iter().map(|(k, s, w)| format!("mk {} {} {}", k, s, w)).collect();
                    terms.push(format!("{{| i_prog := {}; i_data := {}; i_metas := [{}] |}}", ix.prog, ix.term, mt.join("; ")));
                    real.push(Instruction { program_id: self.keys.pk(&ix.prog), accounts: metas, data: ix.bytes.clone() });
                }
                let wf = signers.iter().all(|k| matches!(k, K::User(_)));
                let kps: Vec<Keypair> = signers.iter().filter_map(|k| if let K::User(n) = k { Some(user_keypair(*n)) } else { None }).collect();
                let st: Vec<String> = signers.iter().map(|k| format!("{}", k)).collect();
                let ok = if wf { self.submit(&real, &kps).await } else { false };
                self.tx_count += 1; if ok { self.ok_count += 1; }
                for ix in ixs { let kind: String = ix.term.replace("(IxRd (", "").replace("(IxPassport (", "P:").replace("(IxSwap (", "S:").replace("(IxRogueCpi ", "viaCPI:")
                        .split(|c: char| c == ' ' || c == ')').find(|x| !x.is_empty()).unwrap_or("?").trim_start_matches('(').to_string();
                    let e = self.kinds.entry(kind).or_insert((0, 0)); if ok { e.0 += 1 } else { e.1 += 1 } }
                (format!("OTx {{| tx_signers := [{}]; tx_ixs := [{}] |}}", st.join("; "), terms.join("; ")), ok)
            }
            Op::SetClock(t) => {
                let mut c: Clock = self.ctx.banks_client.get_sysvar().await.unwrap();
                c.unix_timestamp = *t as i64;
                self.ctx.set_sysvar(&c);
                (format!("OSetClock {}", t), true)
            }
            Op::Airdrop(k, lam) => {
                let p = self.keys.pk(k);
                let mut a = self.ctx.banks_client.get_account(p).await.unwrap().unwrap_or_default();
                a.lamports += lam;
                self.ctx.set_account(&p, &a.into());
                (format!("OAirdrop {} {}", k, lam), true)
            }
            Op::ForgeCopy { from, to, owner } => {
                let pf = self.keys.pk(from); let pt = self.keys.pk(to);
                let mut a = self.ctx.banks_client.get_account(pf).await.unwrap().unwrap_or_default();
                if let Some(o) = owner { a.owner = self.keys.pk(o); }
                let t = self.acct_term(&a);
                self.ctx.set_account(&pt, &a.into());
                (format!("OForge {} {}", to, t), true)
            }
            Op::ForgeRaw { to, owner, lamports, data } => {
                let pt = self.keys.pk(to);
                let a = Account { lamports: *lamports, data: data.clone(), owner: self.keys.pk(owner), ..Default::default() };
                let t = self.acct_term(&a);
                self.ctx.set_account(&pt, &a.into());
                (format!("OForge {} {}", to, t), true)
            }
            Op::MintTo(k, amt) => {
                let p = self.keys.pk(k);
                let auth = user_keypair(MINT_AUTHORITY);
                let ix = spl_token_interface::instruction::mint_to(&spl_token_interface::ID, &rd::DOUBLEZERO_MINT_KEY, &p, &auth.pubkey(), &[], *amt).unwrap();
                let ok = self.submit(&[ix], &[auth]).await;
                (format!("OMintTo {} {}", k, amt), ok)
            }
            Op::CreateAta { payer, owner } => {
                let (pp_, po) = (self.keys.pk(payer), self.keys.pk(owner));
                let ix = spl_associated_token_account_interface::instruction::create_associated_token_account(&pp_, &po, &rd::DOUBLEZERO_MINT_KEY, &spl_token_interface::ID);
                let kp: Vec<Keypair> = if let K::User(n) = payer { vec![user_keypair(*n)] } else { vec![] };
                let ok = self.submit(&[ix], &kp).await;
                (format!("OCreateAta {} {}", payer, owner), ok)
            }
        };
        let mut post = vec![];
        for k in keys {
            let t = self.observe(&k).await;
            if self.last.get(&k) == Some(&t) { post.push(format!("({}, Same)", k)); }
            else { post.push(format!("({}, Now {})", k, t)); self.last.insert(k, t); }
        }
        self.lines.push(format!("({}, {}, [{}])", term, ok, post.join("; ")));
        ok
    }

    /// Look-alike of the revenue-distribution config: same bytes (right type tag and size), every role key replaced by
    /// `attacker`, placed at `to` under `owner`.
    pub async fn forge_rd_config(&mut self, attacker: &K, to: &K, owner: &K) { self.forge_rd_config_ex(attacker, to, owner, false).await }
    /// `unpause`: clear the pause bit in the forged copy (an attacker's look-alike claims the program is not paused)
    pub async fn forge_rd_config_ex(&mut self, attacker: &K, to: &K, owner: &K, unpause: bool) {
        let p = self.keys.pk(&K::RdConfig);
        let Some(a) = self.ctx.banks_client.get_account(p).await.unwrap() else { return };
        let mut data = a.data.clone();
        if unpause && data.len() > 8 { data[8] &= !1u8; }
        let ak = self.keys.pk(attacker).to_bytes();
        use core::mem::offset_of;
        for off in [offset_of!(rd::state::ProgramConfig, admin_key), offset_of!(rd::state::ProgramConfig, debt_accountant_key),
                    offset_of!(rd::state::ProgramConfig, rewards_accountant_key), offset_of!(rd::state::ProgramConfig, contributor_manager_key)] {
            if data.len() >= 8 + off + 32 { data[8 + off..8 + off + 32].copy_from_slice(&ak); }
        }
        self.op(Op::ForgeRaw { to: to.clone(), owner: owner.clone(), lamports: a.lamports, data }).await;
    }
    /// type confusion: the genuine program's own owner, the bytes of a program config naming `attacker` in every role, unpaused, but
    /// carrying the type tag of a *journal* (a config-shaped account of another type of the same program)
    pub async fn forge_rd_config_mistagged(&mut self, attacker: &K, to: &K) {
        use doublezero_program_tools::PrecomputedDiscriminator;
        let p = self.keys.pk(&K::RdConfig);
        let Some(a) = self.ctx.banks_client.get_account(p).await.unwrap() else { return };
        let mut data = a.data.clone();
        if data.len() > 8 { data[8] &= !1u8; }
        let ak = self.keys.pk(attacker).to_bytes();
        use core::mem::offset_of;
        for off in [offset_of!(rd::state::ProgramConfig, admin_key), offset_of!(rd::state::ProgramConfig, debt_accountant_key),
                    offset_of!(rd::state::ProgramConfig, rewards_accountant_key), offset_of!(rd::state::ProgramConfig, contributor_manager_key)] {
            if data.len() >= 8 + off + 32 { data[8 + off..8 + off + 32].copy_from_slice(&ak); }
        }
        data[..8].copy_from_slice(rd::state::Journal::discriminator_slice());
        self.op(Op::ForgeRaw { to: to.clone(), owner: K::Rd, lamports: a.lamports, data }).await;
    }
    pub async fn forge_pp_config(&mut self, attacker: &K, to: &K, owner: &K) {
        let p = self.keys.pk(&K::PpConfig);
        let Some(a) = self.ctx.banks_client.get_account(p).await.unwrap() else { return };
        let mut data = a.data.clone();
        let ak = self.keys.pk(attacker).to_bytes();
        use core::mem::offset_of;
        for off in [offset_of!(pp::state::ProgramConfig, admin_key), offset_of!(pp::state::ProgramConfig, sentinel_key)] {
            if data.len() >= 8 + off + 32 { data[8 + off..8 + off + 32].copy_from_slice(&ak); }
        }
        // and as liberal as a configuration can be: no pause flag, a deposit of one lamport, no fee, the largest backup limit
        {
            let off = offset_of!(pp::state::ProgramConfig, flags); for x in &mut data[8 + off..8 + off + 8] { *x = 0; }
            let off = offset_of!(pp::state::ProgramConfig, request_deposit_lamports); data[8 + off..8 + off + 8].copy_from_slice(&1u64.to_le_bytes());
            let off = offset_of!(pp::state::ProgramConfig, request_fee_lamports); data[8 + off..8 + off + 8].copy_from_slice(&0u64.to_le_bytes());
            let off = offset_of!(pp::state::ProgramConfig, solana_validator_backup_ids_limit); data[8 + off..8 + off + 2].copy_from_slice(&u16::MAX.to_le_bytes());
        }
        self.op(Op::ForgeRaw { to: to.clone(), owner: owner.clone(), lamports: a.lamports, data }).await;
    }
    /// ProgramData look-alike naming `attacker` as upgrade authority (valid loader state, any owner, any address)
    pub async fn forge_progdata(&mut self, attacker: &K, to: &K, owner: &K) {
        let data = bincode::serialize(&solana_loader_v3_interface::state::UpgradeableLoaderState::ProgramData {
            slot: 0, upgrade_authority_address: Some(self.keys.pk(attacker)) }).unwrap();
        self.op(Op::ForgeRaw { to: to.clone(), owner: owner.clone(), lamports: 2_000_000, data }).await;
    }

    /// ProgramData as the loader leaves it after the authority was revoked (`None`), the 32 bytes after the tag still spelling `stale`
    pub async fn forge_progdata_revoked(&mut self, stale: &K, to: &K, owner: &K) {
        let mut data = bincode::serialize(&solana_loader_v3_interface::state::UpgradeableLoaderState::ProgramData {
            slot: 0, upgrade_authority_address: None }).unwrap();
        data.extend_from_slice(&self.keys.pk(stale).to_bytes());
        self.op(Op::ForgeRaw { to: to.clone(), owner: owner.clone(), lamports: 2_000_000, data }).await;
    }
    /// a ContributorRewards look-alike for service key `svc`: the genuine account's bytes with the recipient table replaced by
    /// (attacker, 100%), under another owner at another address
    pub async fn forge_contrib_lookalike(&mut self, svc: &K, attacker: &K, to: &K, owner: &K) {
        let p = self.keys.pk(&K::RdContrib(b(svc)));
        let Some(a) = self.ctx.banks_client.get_account(p).await.unwrap() else { return };
        let mut data = a.data.clone();
        use core::mem::{offset_of, size_of};
        let off = 8 + offset_of!(rd::state::ContributorRewards, recipient_shares);
        let n = size_of::<rd::state::RecipientShares>();
        if data.len() < off + n { return }
        for x in &mut data[off..off + n] { *x = 0; }
        data[off..off + 32].copy_from_slice(&self.keys.pk(attacker).to_bytes());
        data[off + 32..off + 34].copy_from_slice(&10_000u16.to_le_bytes());
        self.reg_ata(attacker);
        self.op(Op::ForgeRaw { to: to.clone(), owner: owner.clone(), lamports: a.lamports, data }).await;
    }

    /// the whole history as one Gallina term (with its local definitions)
    pub fn history_term(&self) -> String {
        let mut s = String::new();
        for d in &self.defs { s.push_str(d); s.push(' '); }
        s.push_str(&format!("[{}]", self.lines.join("; ")));
        s
    }
}

pub fn fee_term(f: &rd::state::SolanaValidatorFeeParameters) -> String {
    format!("{{| fp_base := {}; fp_priority := {}; fp_inflation := {}; fp_jito := {}; fp_fixed := {} |}}",
        u16::from(f.base_block_rewards_pct), u16::from(f.priority_block_rewards_pct), u16::from(f.inflation_rewards_pct), u16::from(f.jito_tips_pct), f.fixed_sol_amount)
}
