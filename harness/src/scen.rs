//! Shared scenario plumbing: running histories on 16 banks in parallel, generic fault injection.
use crate::keys::K;
use crate::rng::Rng;
use crate::sim::{Ix, Op, Sim};
use std::future::Future;
use std::pin::Pin;

pub type Scenario = fn(Sim, Rng, usize) -> Pin<Box<dyn Future<Output = Sim>>>;

/// `n` histories of about `len` operations each; one line per history, then `#stats`.
pub fn run_family(seed: u64, n: usize, len: usize, scen: Scenario) {
    crate::sim::install_hooks();
    let threads = 16.min(n.max(1));
    let per = (n + threads - 1) / threads;
    let mut handles = vec![];
    for t in 0..threads {
        handles.push(std::thread::Builder::new().stack_size(256 << 20).spawn(move || {   // the scripted scenarios are large futures in debug builds
            let rt = tokio::runtime::Builder::new_multi_thread().worker_threads(2).thread_stack_size(64 << 20).enable_all().build().unwrap();
            let mut out = vec![];
            for j in 0..per {
                let id = (t * per + j) as u64;
                if id as usize >= n { break; }
                let rng = Rng::new(seed.wrapping_mul(1_000_003).wrapping_add(id));
                let sim = rt.block_on(async move { let s = Sim::new(id + 1).await; scen(s, rng, len).await });
                out.push((sim.history_term(), sim.tx_count, sim.ok_count, sim.kinds));
            }
            out
        }).unwrap());
    }
    let (mut txs, mut oks) = (0, 0);
    let mut kinds: std::collections::BTreeMap<String, (usize, usize)> = Default::default();
    for h in handles {
        for (term, t, o, k) in h.join().unwrap() {
            println!("{}", term);
            txs += t; oks += o;
            for (name, (a, b)) in k { let e = kinds.entry(name).or_insert((0, 0)); e.0 += a; e.1 += b; }
        }
    }
    let ks: Vec<String> = kinds.iter().map(|(k, (a, b))| format!("{}={}/{}", k.replace(' ', "_"), a, b)).collect();
    println!("#stats txs={} ok={} fail={} kinds(ok/fail): {}", txs, oks, txs - oks, ks.join(" "));
}

/// signers implied by the metas (every wallet marked signer signs) plus extra ones
pub fn signers_of(ixs: &[Ix], extra: &[K]) -> Vec<K> {
    let mut v: Vec<K> = vec![];
    for ix in ixs { for (k, s, _) in &ix.metas { if *s && !v.contains(k) { v.push(k.clone()); } } }
    for k in extra { if !v.contains(k) { v.push(k.clone()); } }
    v
}
pub fn tx(ixs: Vec<Ix>) -> Op { let s = signers_of(&ixs, &[]); Op::Tx { signers: s, ixs } }

/// one random account-list fault on an honest instruction; returns a description
pub fn fault(rng: &mut Rng, ix: Ix, universe: &[K]) -> (Ix, String) {
    let n = ix.metas.len();
    if n == 0 { return (ix, "none".into()); }
    let pos = rng.below(n as u64) as usize;
    match rng.below(6) {
        0 | 1 => { let k = rng.pick(universe).clone(); let d = format!("swap[{}]:={}", pos, k); (ix.with_key(pos, &k), d) }
        2 => { // clear a signer flag if there is one (the key then does not sign)
            if let Some(p) = ix.metas.iter().position(|m| m.1) { (ix.with_signer(p, false), format!("nosign[{}]", p)) } else { (ix, "none".into()) } }
        3 => { if let Some(p) = ix.metas.iter().position(|m| m.2) { (ix.with_writable(p, false), format!("readonly[{}]", p)) } else { (ix, "none".into()) } }
        4 => (ix.drop_last(), "droplast".into()),
        _ => { // alias two positions
            let q = rng.below(n as u64) as usize; let k = ix.metas[q].0.clone(); (ix.with_key(pos, &k), format!("alias[{}]:=[{}]", pos, q)) }
    }
}
