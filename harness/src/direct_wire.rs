//! C19 direct-call family: instruction VALUES of the three instruction enums, their real Borsh bytes, single-edit
//! corruptions of those bytes, and what the real code does with each byte string:
//!   * `BorshDeserialize::try_from_slice` (decoded value or None, and whether re-encoding reproduces the input),
//!   * the real `verif_process_instruction` with an EMPTY account list, classified as
//!     RInvalidData (ProgramError::InvalidInstructionData) / RIncorrectProgramId / RDispatched (anything else:
//!     the instruction was accepted by the parser and a handler ran).
//! One case per line as a Gallina term of type `Wire.wcase`; `dump_constants` prints the selector / tag / id constants.
use crate::rng::Rng;
use borsh::{BorshDeserialize, BorshSerialize};
use doublezero_passport::instruction as pp;
use doublezero_passport::instruction::PassportInstructionData as PpIx;
use doublezero_revenue_distribution::instruction as rd;
use doublezero_revenue_distribution::instruction::RevenueDistributionInstructionData as RdIx;
use doublezero_revenue_distribution::types::{DoubleZeroEpoch, RewardShare, SolanaValidatorDebt};
use mock_swap_sol_2z::instruction::MockSwapSol2zInstructionData as SwIx;
use solana_account_info::AccountInfo;
use solana_program_error::ProgramError;
use solana_pubkey::Pubkey;
use std::collections::BTreeMap;
use svm_hash::merkle::{LeafSide, MerkleProof};
use svm_hash::sha2::Hash;

// ------------------------------------------------------------------------------------------------ constants

fn coq_bytes(b: &[u8]) -> String {
    let v: Vec<String> = b.iter().map(|x| x.to_string()).collect();
    format!("[{}]", v.join(";"))
}
/// Case lines carry byte strings packed 7 bytes per primitive-integer literal (little endian), `(B len [w0;w1;...])`:
/// Coq parses a Uint63 literal natively, a list of N literals costs 0.1 ms per byte. `B` is defined in lib/props/C19.py.
fn pk(b: &[u8]) -> String {
    let ws: Vec<String> = b.chunks(7).map(|c| { let mut w = 0u64; for (i, x) in c.iter().enumerate() { w |= (*x as u64) << (8 * i); } w.to_string() }).collect();
    format!("(B {} [{}]%uint63)", b.len(), ws.join(";"))
}
fn ser<T: BorshSerialize>(v: &T) -> Vec<u8> { borsh::to_vec(v).unwrap() }
fn tag<T: BorshSerialize>(v: &T) -> u8 { ser(v)[0] }

pub fn rd_selectors() -> Vec<(&'static str, Vec<u8>)> {
    vec![
        ("INITIALIZE_PROGRAM", ser(&RdIx::INITIALIZE_PROGRAM)),
        ("MIGRATE_PROGRAM_ACCOUNTS", ser(&RdIx::MIGRATE_PROGRAM_ACCOUNTS)),
        ("SET_ADMIN", ser(&RdIx::SET_ADMIN)),
        ("CONFIGURE_PROGRAM", ser(&RdIx::CONFIGURE_PROGRAM)),
        ("INITIALIZE_JOURNAL", ser(&RdIx::INITIALIZE_JOURNAL)),
        ("INITIALIZE_DISTRIBUTION", ser(&RdIx::INITIALIZE_DISTRIBUTION)),
        ("CONFIGURE_DISTRIBUTION_DEBT", ser(&RdIx::CONFIGURE_DISTRIBUTION_DEBT)),
        ("FINALIZE_DISTRIBUTION_DEBT", ser(&RdIx::FINALIZE_DISTRIBUTION_DEBT)),
        ("CONFIGURE_DISTRIBUTION_REWARDS", ser(&RdIx::CONFIGURE_DISTRIBUTION_REWARDS)),
        ("FINALIZE_DISTRIBUTION_REWARDS", ser(&RdIx::FINALIZE_DISTRIBUTION_REWARDS)),
        ("DISTRIBUTE_REWARDS", ser(&RdIx::DISTRIBUTE_REWARDS)),
        ("INITIALIZE_CONTRIBUTOR_REWARDS", ser(&RdIx::INITIALIZE_CONTRIBUTOR_REWARDS)),
        ("SET_REWARDS_MANAGER", ser(&RdIx::SET_REWARDS_MANAGER)),
        ("CONFIGURE_CONTRIBUTOR_REWARDS", ser(&RdIx::CONFIGURE_CONTRIBUTOR_REWARDS)),
        ("VERIFY_DISTRIBUTION_MERKLE_ROOT", ser(&RdIx::VERIFY_DISTRIBUTION_MERKLE_ROOT)),
        ("INITIALIZE_SOLANA_VALIDATOR_DEPOSIT", ser(&RdIx::INITIALIZE_SOLANA_VALIDATOR_DEPOSIT)),
        ("PAY_SOLANA_VALIDATOR_DEBT", ser(&RdIx::PAY_SOLANA_VALIDATOR_DEBT)),
        ("ENABLE_SOLANA_VALIDATOR_DEBT_WRITE_OFF", ser(&RdIx::ENABLE_SOLANA_VALIDATOR_DEBT_WRITE_OFF)),
        ("WRITE_OFF_SOLANA_VALIDATOR_DEBT", ser(&RdIx::WRITE_OFF_SOLANA_VALIDATOR_DEBT)),
        ("INITIALIZE_SWAP_DESTINATION", ser(&RdIx::INITIALIZE_SWAP_DESTINATION)),
        ("SWEEP_DISTRIBUTION_TOKENS_V1", ser(&RdIx::SWEEP_DISTRIBUTION_TOKENS_V1)),
        ("WITHDRAW_SOL", ser(&RdIx::WITHDRAW_SOL)),
    ]
}
pub fn pp_selectors() -> Vec<(&'static str, Vec<u8>)> {
    vec![
        ("INITIALIZE_PROGRAM", ser(&PpIx::INITIALIZE_PROGRAM)),
        ("SET_ADMIN", ser(&PpIx::SET_ADMIN)),
        ("CONFIGURE_PROGRAM", ser(&PpIx::CONFIGURE_PROGRAM)),
        ("REQUEST_ACCESS", ser(&PpIx::REQUEST_ACCESS)),
        ("GRANT_ACCESS", ser(&PpIx::GRANT_ACCESS)),
        ("DENY_ACCESS", ser(&PpIx::DENY_ACCESS)),
    ]
}
pub fn sw_selectors() -> Vec<(&'static str, Vec<u8>)> {
    vec![
        ("INITIALIZE_FILLS_TRACKER", ser(&SwIx::INITIALIZE_FILLS_TRACKER)),
        ("BUY_SOL", ser(&SwIx::BUY_SOL)),
        ("DEQUEUE_FILLS", ser(&SwIx::DEQUEUE_FILLS)),
    ]
}

/// Called by `dzh dump-constants`: the C19 part of Generated.v.
pub fn dump_constants() {
    let k0 = Pubkey::default();
    println!("\n(* C19: instruction selectors, program ids, Borsh tags of the derived enums (first byte of a sample value) *)");
    println!("Definition G_DISCRIMINATOR_LEN : N := {}.", doublezero_program_tools::DISCRIMINATOR_LEN);
    println!("Definition G_RD_ID : list N := {}.", coq_bytes(doublezero_revenue_distribution::ID.as_ref()));
    println!("Definition G_PP_ID : list N := {}.", coq_bytes(doublezero_passport::ID.as_ref()));
    println!("Definition G_SW_ID : list N := {}.", coq_bytes(mock_swap_sol_2z::ID.as_ref()));
    for (n, b) in rd_selectors() { println!("Definition G_RD_SEL_{} : list N := {}.", n, coq_bytes(&b)); }
    for (n, b) in pp_selectors() { println!("Definition G_PP_SEL_{} : list N := {}.", n, coq_bytes(&b)); }
    for (n, b) in sw_selectors() { println!("Definition G_SW_SEL_{} : list N := {}.", n, coq_bytes(&b)); }
    let t = |n: &str, v: u8| println!("Definition G_{} : N := {}.", n, v);
    use rd::ProgramConfiguration as P;
    t("RD_PC_TAG_FLAG", tag(&P::Flag(rd::ProgramFlagConfiguration::IsPaused(false))));
    t("RD_PC_TAG_DEBT_ACCOUNTANT", tag(&P::DebtAccountant(k0)));
    t("RD_PC_TAG_REWARDS_ACCOUNTANT", tag(&P::RewardsAccountant(k0)));
    t("RD_PC_TAG_CONTRIBUTOR_MANAGER", tag(&P::ContributorManager(k0)));
    t("RD_PC_TAG_PLACEHOLDER_KEY", tag(&P::PlaceholderKey(k0)));
    t("RD_PC_TAG_SOL_2Z_SWAP_PROGRAM", tag(&P::Sol2zSwapProgram(k0)));
    t("RD_PC_TAG_SOLANA_VALIDATOR_FEE_PARAMETERS", tag(&P::SolanaValidatorFeeParameters {
        base_block_rewards_pct: 0, priority_block_rewards_pct: 0, inflation_rewards_pct: 0, jito_tips_pct: 0, fixed_sol_amount: 0, _unused: [0; 28] }));
    t("RD_PC_TAG_CALCULATION_GRACE_PERIOD_MINUTES", tag(&P::CalculationGracePeriodMinutes(0)));
    t("RD_PC_TAG_COMMUNITY_BURN_RATE_PARAMETERS", tag(&P::CommunityBurnRateParameters {
        limit: 0, dz_epochs_to_increasing: 0, dz_epochs_to_limit: 0, initial_rate: None }));
    t("RD_PC_TAG_PLACEHOLDER_RELAY_LAMPORTS", tag(&P::PlaceholderRelayLamports(0)));
    t("RD_PC_TAG_DISTRIBUTE_REWARDS_RELAY_LAMPORTS", tag(&P::DistributeRewardsRelayLamports(0)));
    t("RD_PC_TAG_MINIMUM_EPOCH_DURATION_TO_FINALIZE_REWARDS", tag(&P::MinimumEpochDurationToFinalizeRewards(0)));
    t("RD_PC_TAG_DISTRIBUTION_INITIALIZATION_GRACE_PERIOD_MINUTES", tag(&P::DistributionInitializationGracePeriodMinutes(0)));
    t("RD_PC_TAG_FEATURE_ACTIVATION", tag(&P::FeatureActivation {
        feature: rd::ProgramFeatureConfiguration::SolanaValidatorDebtWriteOff, activation_epoch: DoubleZeroEpoch::new(0) }));
    t("RD_FLAG_TAG_IS_PAUSED", tag(&rd::ProgramFlagConfiguration::IsPaused(false)));
    t("RD_FEATURE_TAG_SOLANA_VALIDATOR_DEBT_WRITE_OFF", tag(&rd::ProgramFeatureConfiguration::SolanaValidatorDebtWriteOff));
    t("RD_CR_TAG_RECIPIENTS", tag(&rd::ContributorRewardsConfiguration::Recipients(vec![])));
    t("RD_CR_TAG_IS_SET_REWARDS_MANAGER_BLOCKED", tag(&rd::ContributorRewardsConfiguration::IsSetRewardsManagerBlocked(false)));
    t("RD_KIND_TAG_SOLANA_VALIDATOR_DEBT", tag(&rd::DistributionMerkleRootKind::SolanaValidatorDebt(SolanaValidatorDebt::default())));
    t("RD_KIND_TAG_REWARD_SHARE", tag(&rd::DistributionMerkleRootKind::RewardShare(RewardShare::default())));
    t("SIDE_TAG_LEFT", tag(&LeafSide::Left));
    t("SIDE_TAG_RIGHT", tag(&LeafSide::Right));
    use pp::ProgramConfiguration as Q;
    t("PP_PC_TAG_FLAG", tag(&Q::Flag(pp::ProgramFlagConfiguration::IsPaused(false))));
    t("PP_PC_TAG_DOUBLE_ZERO_LEDGER_SENTINEL", tag(&Q::DoubleZeroLedgerSentinel(k0)));
    t("PP_PC_TAG_ACCESS_REQUEST_DEPOSIT", tag(&Q::AccessRequestDeposit { request_deposit_lamports: 0, request_fee_lamports: 0 }));
    t("PP_PC_TAG_SOLANA_VALIDATOR_BACKUP_IDS_LIMIT", tag(&Q::SolanaValidatorBackupIdsLimit(0)));
    t("PP_FLAG_TAG_IS_PAUSED", tag(&pp::ProgramFlagConfiguration::IsPaused(false)));
    t("PP_FLAG_TAG_IS_REQUEST_ACCESS_PAUSED", tag(&pp::ProgramFlagConfiguration::IsRequestAccessPaused(false)));
    let att = pp::SolanaValidatorAttestation { validator_id: k0, service_key: k0, ed25519_signature: [0; 64] };
    t("PP_AM_TAG_SOLANA_VALIDATOR", tag(&pp::AccessMode::SolanaValidator(att)));
    t("PP_AM_TAG_SOLANA_VALIDATOR_WITH_BACKUP_IDS", tag(&pp::AccessMode::SolanaValidatorWithBackupIds { attestation: att, backup_ids: vec![] }));
    // widths of the fixed-size pieces, measured on sample values
    println!("Definition G_PUBKEY_LEN : N := {}.", ser(&k0).len());
    println!("Definition G_HASH_LEN : N := {}.", ser(&Hash::default()).len());
    println!("Definition G_ATTESTATION_LEN : N := {}.", ser(&att).len());
    println!("Definition G_REWARD_SHARE_LEN : N := {}.", ser(&RewardShare::default()).len());
    println!("Definition G_SOLANA_VALIDATOR_DEBT_LEN : N := {}.", ser(&SolanaValidatorDebt::default()).len());
}

// ------------------------------------------------------------------------------------------------ generators

fn u_edge(rng: &mut Rng, bits: u32, special: &[u64]) -> u64 {
    let max = if bits == 64 { u64::MAX } else { (1u64 << bits) - 1 };
    let v = match rng.below(12) {
        0 => 0, 1 => 1, 2 => max, 3 => max - rng.below(4),
        4 => rng.below(16), 5 => 1u64 << rng.below(bits as u64), 6 => (1u64 << rng.below(bits as u64)).wrapping_sub(1),
        7 | 8 if !special.is_empty() => { let s = *rng.pick(special); match rng.below(3) { 0 => s, 1 => s.wrapping_add(1), _ => s.wrapping_sub(1) } }
        9 => 255 + rng.below(3), // around a byte boundary: little-endian carries
        _ => rng.next(),
    };
    v & max
}
fn g_u8(r: &mut Rng) -> u8 { u_edge(r, 8, &[]) as u8 }
fn g_u16(r: &mut Rng) -> u16 { u_edge(r, 16, &[10_000, 1440]) as u16 }
fn g_u32(r: &mut Rng) -> u32 { u_edge(r, 32, &[1_000_000_000, 0x3FFF_FFFF, 0x8000_0000]) as u32 }
fn g_u64(r: &mut Rng) -> u64 { u_edge(r, 64, &[1u64 << 32]) }
fn g_bool(r: &mut Rng) -> bool { r.chance(1, 2) }
fn g_arr<const K: usize>(r: &mut Rng) -> [u8; K] {
    let mut a = [0u8; K];
    match r.below(8) {
        0 => {}
        1 => a = [0xFF; K],
        2 => { a[r.below(K as u64) as usize] = 1 + r.below(255) as u8; }
        _ => { for x in a.iter_mut() { *x = r.next() as u8; } }
    }
    a
}
fn g_key(r: &mut Rng) -> Pubkey {
    match r.below(12) {
        0 => doublezero_revenue_distribution::ID,
        1 => doublezero_passport::ID,
        2 => mock_swap_sol_2z::ID,
        _ => Pubkey::new_from_array(g_arr::<32>(r)),
    }
}
fn g_hash(r: &mut Rng) -> Hash { Hash::new_from_array(g_arr::<32>(r)) }

/// Proofs of depth 0..=32. The sibling vector is private in svm-hash, so shallow proofs come from the crate's own
/// constructors (real trees) and the others from bytes in the crate's layout through the crate's deserialiser.
fn g_proof(r: &mut Rng) -> MerkleProof {
    let depth = match r.below(8) { 0 => 0, 1 => 32, 2 => 1, 3 => 31, _ => r.range(0, 32) } as usize;
    if depth <= 6 && r.chance(1, 2) {
        let n_leaves = if depth == 0 { 1 } else { (1usize << (depth - 1)) + 1 + r.below((1u64 << (depth - 1)) as u64) as usize };
        let leaves: Vec<Vec<u8>> = (0..n_leaves).map(|i| vec![i as u8, r.next() as u8, 7]).collect();
        let refs: Vec<&[u8]> = leaves.iter().map(|l| l.as_slice()).collect();
        let idx = r.below(n_leaves as u64) as u32;
        let p = if r.chance(1, 2) { MerkleProof::from_indexed_leaves(&refs, idx, Some(b"c19")) } else { MerkleProof::from_leaves(&refs, idx, None) };
        return p.unwrap();
    }
    let mut b = vec![];
    b.extend((depth as u32).to_le_bytes());
    for _ in 0..depth { b.extend(g_arr::<32>(r)); b.push(r.below(2) as u8); }
    if r.chance(1, 3) { b.push(0); } else { b.push(1); b.extend(g_u32(r).to_le_bytes()); }
    MerkleProof::try_from_slice(&b).expect("proof layout")
}

const RD_VARIANTS: usize = 22;
const RD_PC_VARIANTS: usize = 14;
fn g_rd_pc(r: &mut Rng, which: usize) -> rd::ProgramConfiguration {
    use rd::ProgramConfiguration as P;
    match which % RD_PC_VARIANTS {
        0 => P::Flag(rd::ProgramFlagConfiguration::IsPaused(g_bool(r))),
        1 => P::DebtAccountant(g_key(r)),
        2 => P::RewardsAccountant(g_key(r)),
        3 => P::ContributorManager(g_key(r)),
        4 => P::PlaceholderKey(g_key(r)),
        5 => P::Sol2zSwapProgram(g_key(r)),
        6 => P::SolanaValidatorFeeParameters {
            base_block_rewards_pct: g_u16(r), priority_block_rewards_pct: g_u16(r), inflation_rewards_pct: g_u16(r),
            jito_tips_pct: g_u16(r), fixed_sol_amount: g_u32(r), _unused: g_arr::<28>(r) },
        7 => P::CalculationGracePeriodMinutes(g_u16(r)),
        8 => P::CommunityBurnRateParameters {
            limit: g_u32(r), dz_epochs_to_increasing: g_u32(r), dz_epochs_to_limit: g_u32(r),
            initial_rate: if g_bool(r) { Some(g_u32(r)) } else { None } },
        9 => P::PlaceholderRelayLamports(g_u32(r)),
        10 => P::DistributeRewardsRelayLamports(g_u32(r)),
        11 => P::MinimumEpochDurationToFinalizeRewards(g_u8(r)),
        12 => P::DistributionInitializationGracePeriodMinutes(g_u16(r)),
        _ => P::FeatureActivation { feature: rd::ProgramFeatureConfiguration::SolanaValidatorDebtWriteOff, activation_epoch: DoubleZeroEpoch::new(g_u64(r)) },
    }
}
fn g_rd(r: &mut Rng, which: usize, sub: usize) -> RdIx {
    match which % RD_VARIANTS {
        0 => RdIx::InitializeProgram,
        1 => RdIx::MigrateProgramAccounts,
        2 => RdIx::SetAdmin(g_key(r)),
        3 => RdIx::ConfigureProgram(g_rd_pc(r, sub)),
        4 => RdIx::InitializeJournal,
        5 => RdIx::InitializeDistribution,
        6 => RdIx::ConfigureDistributionDebt { total_validators: g_u32(r), total_debt: g_u64(r), merkle_root: g_hash(r) },
        7 => RdIx::FinalizeDistributionDebt,
        8 => RdIx::ConfigureDistributionRewards { total_contributors: g_u32(r), merkle_root: g_hash(r) },
        9 => RdIx::FinalizeDistributionRewards,
        10 => RdIx::DistributeRewards { unit_share: g_u32(r), economic_burn_rate: g_u32(r), proof: g_proof(r) },
        11 => RdIx::InitializeContributorRewards(g_key(r)),
        12 => RdIx::SetRewardsManager(g_key(r)),
        13 => RdIx::ConfigureContributorRewards(if sub % 3 != 2 {
            let n = match r.below(6) { 0 => 0, 1 => 10, 2 => 8, _ => r.range(0, 10) };
            rd::ContributorRewardsConfiguration::Recipients((0..n).map(|_| (g_key(r), g_u16(r))).collect())
        } else { rd::ContributorRewardsConfiguration::IsSetRewardsManagerBlocked(g_bool(r)) }),
        14 => RdIx::VerifyDistributionMerkleRoot {
            kind: if sub % 2 == 0 {
                rd::DistributionMerkleRootKind::SolanaValidatorDebt(SolanaValidatorDebt { node_id: g_key(r), amount: g_u64(r) })
            } else {
                rd::DistributionMerkleRootKind::RewardShare(RewardShare { contributor_key: g_key(r), unit_share: g_u32(r), remaining_bytes: g_arr::<4>(r) })
            },
            proof: g_proof(r) },
        15 => RdIx::InitializeSolanaValidatorDeposit(g_key(r)),
        16 => RdIx::PaySolanaValidatorDebt { amount: g_u64(r), proof: g_proof(r) },
        17 => RdIx::EnableSolanaValidatorDebtWriteOff,
        18 => RdIx::WriteOffSolanaValidatorDebt { amount: g_u64(r), proof: g_proof(r) },
        19 => RdIx::InitializeSwapDestination,
        20 => RdIx::SweepDistributionTokens,
        _ => RdIx::WithdrawSol(g_u64(r)),
    }
}
const PP_VARIANTS: usize = 6;
fn g_att(r: &mut Rng) -> pp::SolanaValidatorAttestation {
    pp::SolanaValidatorAttestation { validator_id: g_key(r), service_key: g_key(r), ed25519_signature: g_arr::<64>(r) }
}
fn g_pp(r: &mut Rng, which: usize, sub: usize) -> PpIx {
    use pp::ProgramConfiguration as Q;
    match which % PP_VARIANTS {
        0 => PpIx::InitializeProgram,
        1 => PpIx::SetAdmin(g_key(r)),
        2 => PpIx::ConfigureProgram(match sub % 5 {
            0 => Q::Flag(pp::ProgramFlagConfiguration::IsPaused(g_bool(r))),
            1 => Q::Flag(pp::ProgramFlagConfiguration::IsRequestAccessPaused(g_bool(r))),
            2 => Q::DoubleZeroLedgerSentinel(g_key(r)),
            3 => Q::AccessRequestDeposit { request_deposit_lamports: g_u64(r), request_fee_lamports: g_u64(r) },
            _ => Q::SolanaValidatorBackupIdsLimit(g_u16(r)),
        }),
        3 => PpIx::RequestAccess(if sub % 3 == 0 { pp::AccessMode::SolanaValidator(g_att(r)) } else {
            let n = match r.below(6) { 0 => 0, 1 => 16, _ => r.range(0, 12) };
            pp::AccessMode::SolanaValidatorWithBackupIds { attestation: g_att(r), backup_ids: (0..n).map(|_| g_key(r)).collect() }
        }),
        4 => PpIx::GrantAccess,
        _ => PpIx::DenyAccess,
    }
}
const SW_VARIANTS: usize = 3;
fn g_sw(r: &mut Rng, which: usize) -> SwIx {
    match which % SW_VARIANTS {
        0 => SwIx::InitializeFillsRegistry,
        1 => SwIx::BuySol { amount_2z_in: g_u64(r), amount_sol_out: g_u64(r) },
        _ => SwIx::DequeueFills(g_u64(r)),
    }
}

// ------------------------------------------------------------------------------------------------ values as Gallina terms (Wire.v)

fn t_key(k: &Pubkey) -> String { pk(k.as_ref()) }
fn t_bool(b: bool) -> &'static str { if b { "true" } else { "false" } }
fn t_proof(p: &MerkleProof) -> String {
    let sibs: Vec<String> = p.into_iter().map(|s| format!("Sib {} {}", pk(s.hash.as_ref()),
        match s.side { LeafSide::Left => "SideLeft", LeafSide::Right => "SideRight" })).collect();
    format!("(MProof [{}] {})", sibs.join(";"), match p.leaf_index { None => "None".to_string(), Some(i) => format!("(Some {})", i) })
}
fn t_rd_pc(c: &rd::ProgramConfiguration) -> (String, &'static str) {
    use rd::ProgramConfiguration as P;
    match c {
        P::Flag(rd::ProgramFlagConfiguration::IsPaused(b)) => (format!("RpFlag (RdIsPaused {})", t_bool(*b)), "Flag"),
        P::DebtAccountant(k) => (format!("RpDebtAccountant {}", t_key(k)), "DebtAccountant"),
        P::RewardsAccountant(k) => (format!("RpRewardsAccountant {}", t_key(k)), "RewardsAccountant"),
        P::ContributorManager(k) => (format!("RpContributorManager {}", t_key(k)), "ContributorManager"),
        P::PlaceholderKey(k) => (format!("RpPlaceholderKey {}", t_key(k)), "PlaceholderKey"),
        P::Sol2zSwapProgram(k) => (format!("RpSol2zSwapProgram {}", t_key(k)), "Sol2zSwapProgram"),
        P::SolanaValidatorFeeParameters { base_block_rewards_pct, priority_block_rewards_pct, inflation_rewards_pct, jito_tips_pct, fixed_sol_amount, _unused } =>
            (format!("RpSolanaValidatorFeeParameters {} {} {} {} {} {}", base_block_rewards_pct, priority_block_rewards_pct,
                     inflation_rewards_pct, jito_tips_pct, fixed_sol_amount, pk(_unused)), "SolanaValidatorFeeParameters"),
        P::CalculationGracePeriodMinutes(m) => (format!("RpCalculationGracePeriodMinutes {}", m), "CalculationGracePeriodMinutes"),
        P::CommunityBurnRateParameters { limit, dz_epochs_to_increasing, dz_epochs_to_limit, initial_rate } =>
            (format!("RpCommunityBurnRateParameters {} {} {} {}", limit, dz_epochs_to_increasing, dz_epochs_to_limit,
                     match initial_rate { None => "None".to_string(), Some(x) => format!("(Some {})", x) }), "CommunityBurnRateParameters"),
        P::PlaceholderRelayLamports(n) => (format!("RpPlaceholderRelayLamports {}", n), "PlaceholderRelayLamports"),
        P::DistributeRewardsRelayLamports(n) => (format!("RpDistributeRewardsRelayLamports {}", n), "DistributeRewardsRelayLamports"),
        P::MinimumEpochDurationToFinalizeRewards(n) => (format!("RpMinimumEpochDurationToFinalizeRewards {}", n), "MinimumEpochDurationToFinalizeRewards"),
        P::DistributionInitializationGracePeriodMinutes(n) => (format!("RpDistributionInitializationGracePeriodMinutes {}", n), "DistributionInitializationGracePeriodMinutes"),
        P::FeatureActivation { feature: rd::ProgramFeatureConfiguration::SolanaValidatorDebtWriteOff, activation_epoch } =>
            (format!("RpFeatureActivation RdFeatSolanaValidatorDebtWriteOff {}", activation_epoch.value()), "FeatureActivation"),
    }
}
/// (term, variant label)
fn t_rd(x: &RdIx) -> (String, String) {
    let (t, l): (String, String) = match x {
        RdIx::InitializeProgram => ("RdInitializeProgram".into(), "InitializeProgram".into()),
        RdIx::MigrateProgramAccounts => ("RdMigrateProgramAccounts".into(), "MigrateProgramAccounts".into()),
        RdIx::SetAdmin(k) => (format!("RdSetAdmin {}", t_key(k)), "SetAdmin".into()),
        RdIx::ConfigureProgram(c) => { let (t, l) = t_rd_pc(c); (format!("RdConfigureProgram ({})", t), format!("ConfigureProgram/{}", l)) }
        RdIx::InitializeJournal => ("RdInitializeJournal".into(), "InitializeJournal".into()),
        RdIx::InitializeDistribution => ("RdInitializeDistribution".into(), "InitializeDistribution".into()),
        RdIx::ConfigureDistributionDebt { total_validators, total_debt, merkle_root } =>
            (format!("RdConfigureDistributionDebt {} {} {}", total_validators, total_debt, pk(merkle_root.as_ref())), "ConfigureDistributionDebt".into()),
        RdIx::FinalizeDistributionDebt => ("RdFinalizeDistributionDebt".into(), "FinalizeDistributionDebt".into()),
        RdIx::ConfigureDistributionRewards { total_contributors, merkle_root } =>
            (format!("RdConfigureDistributionRewards {} {}", total_contributors, pk(merkle_root.as_ref())), "ConfigureDistributionRewards".into()),
        RdIx::FinalizeDistributionRewards => ("RdFinalizeDistributionRewards".into(), "FinalizeDistributionRewards".into()),
        RdIx::DistributeRewards { unit_share, economic_burn_rate, proof } =>
            (format!("RdDistributeRewards {} {} {}", unit_share, economic_burn_rate, t_proof(proof)), "DistributeRewards".into()),
        RdIx::InitializeContributorRewards(k) => (format!("RdInitializeContributorRewards {}", t_key(k)), "InitializeContributorRewards".into()),
        RdIx::SetRewardsManager(k) => (format!("RdSetRewardsManager {}", t_key(k)), "SetRewardsManager".into()),
        RdIx::ConfigureContributorRewards(c) => match c {
            rd::ContributorRewardsConfiguration::Recipients(v) => {
                let items: Vec<String> = v.iter().map(|(k, s)| format!("({},{})", t_key(k), s)).collect();
                (format!("RdConfigureContributorRewards (CrRecipients [{}])", items.join(";")), "ConfigureContributorRewards/Recipients".into()) }
            rd::ContributorRewardsConfiguration::IsSetRewardsManagerBlocked(b) =>
                (format!("RdConfigureContributorRewards (CrIsSetRewardsManagerBlocked {})", t_bool(*b)), "ConfigureContributorRewards/IsSetRewardsManagerBlocked".into()),
        },
        RdIx::VerifyDistributionMerkleRoot { kind, proof } => match kind {
            rd::DistributionMerkleRootKind::SolanaValidatorDebt(d) =>
                (format!("RdVerifyDistributionMerkleRoot (KindDebt (VDebt {} {})) {}", t_key(&d.node_id), d.amount, t_proof(proof)), "VerifyDistributionMerkleRoot/SolanaValidatorDebt".into()),
            rd::DistributionMerkleRootKind::RewardShare(s) =>
                (format!("RdVerifyDistributionMerkleRoot (KindShare (RShare {} {} {})) {}", t_key(&s.contributor_key), s.unit_share, pk(&s.remaining_bytes), t_proof(proof)), "VerifyDistributionMerkleRoot/RewardShare".into()),
        },
        RdIx::InitializeSolanaValidatorDeposit(k) => (format!("RdInitializeSolanaValidatorDeposit {}", t_key(k)), "InitializeSolanaValidatorDeposit".into()),
        RdIx::PaySolanaValidatorDebt { amount, proof } => (format!("RdPaySolanaValidatorDebt {} {}", amount, t_proof(proof)), "PaySolanaValidatorDebt".into()),
        RdIx::EnableSolanaValidatorDebtWriteOff => ("RdEnableSolanaValidatorDebtWriteOff".into(), "EnableSolanaValidatorDebtWriteOff".into()),
        RdIx::WriteOffSolanaValidatorDebt { amount, proof } => (format!("RdWriteOffSolanaValidatorDebt {} {}", amount, t_proof(proof)), "WriteOffSolanaValidatorDebt".into()),
        RdIx::InitializeSwapDestination => ("RdInitializeSwapDestination".into(), "InitializeSwapDestination".into()),
        RdIx::SweepDistributionTokens => ("RdSweepDistributionTokens".into(), "SweepDistributionTokens".into()),
        RdIx::WithdrawSol(a) => (format!("RdWithdrawSol {}", a), "WithdrawSol".into()),
    };
    (format!("VRd ({})", t), format!("rd::{}", l))
}
fn t_att(a: &pp::SolanaValidatorAttestation) -> String {
    format!("(Att {} {} {})", t_key(&a.validator_id), t_key(&a.service_key), pk(&a.ed25519_signature))
}
fn t_pp(x: &PpIx) -> (String, String) {
    use pp::ProgramConfiguration as Q;
    let (t, l): (String, String) = match x {
        PpIx::InitializeProgram => ("PpInitializeProgram".into(), "InitializeProgram".into()),
        PpIx::SetAdmin(k) => (format!("PpSetAdmin {}", t_key(k)), "SetAdmin".into()),
        PpIx::ConfigureProgram(c) => match c {
            Q::Flag(pp::ProgramFlagConfiguration::IsPaused(b)) => (format!("PpConfigureProgram (PcFlag (PfIsPaused {}))", t_bool(*b)), "ConfigureProgram/Flag/IsPaused".into()),
            Q::Flag(pp::ProgramFlagConfiguration::IsRequestAccessPaused(b)) => (format!("PpConfigureProgram (PcFlag (PfIsRequestAccessPaused {}))", t_bool(*b)), "ConfigureProgram/Flag/IsRequestAccessPaused".into()),
            Q::DoubleZeroLedgerSentinel(k) => (format!("PpConfigureProgram (PcDoubleZeroLedgerSentinel {})", t_key(k)), "ConfigureProgram/DoubleZeroLedgerSentinel".into()),
            Q::AccessRequestDeposit { request_deposit_lamports, request_fee_lamports } =>
                (format!("PpConfigureProgram (PcAccessRequestDeposit {} {})", request_deposit_lamports, request_fee_lamports), "ConfigureProgram/AccessRequestDeposit".into()),
            Q::SolanaValidatorBackupIdsLimit(n) => (format!("PpConfigureProgram (PcSolanaValidatorBackupIdsLimit {})", n), "ConfigureProgram/SolanaValidatorBackupIdsLimit".into()),
        },
        PpIx::RequestAccess(m) => match m {
            pp::AccessMode::SolanaValidator(a) => (format!("PpRequestAccess (AmSolanaValidator {})", t_att(a)), "RequestAccess/SolanaValidator".into()),
            pp::AccessMode::SolanaValidatorWithBackupIds { attestation, backup_ids } => {
                let ids: Vec<String> = backup_ids.iter().map(t_key).collect();
                (format!("PpRequestAccess (AmSolanaValidatorWithBackupIds {} [{}])", t_att(attestation), ids.join(";")), "RequestAccess/SolanaValidatorWithBackupIds".into()) }
        },
        PpIx::GrantAccess => ("PpGrantAccess".into(), "GrantAccess".into()),
        PpIx::DenyAccess => ("PpDenyAccess".into(), "DenyAccess".into()),
    };
    (format!("VPp ({})", t), format!("pp::{}", l))
}
fn t_sw(x: &SwIx) -> (String, String) {
    let (t, l): (String, String) = match x {
        SwIx::InitializeFillsRegistry => ("SwInitializeFillsRegistry".into(), "InitializeFillsRegistry".into()),
        SwIx::BuySol { amount_2z_in, amount_sol_out } => (format!("SwBuySol {} {}", amount_2z_in, amount_sol_out), "BuySol".into()),
        SwIx::DequeueFills(a) => (format!("SwDequeueFills {}", a), "DequeueFills".into()),
    };
    (format!("VSw ({})", t), format!("sw::{}", l))
}

// ------------------------------------------------------------------------------------------------ running the real code

struct Stubs;
impl solana_sysvar::program_stubs::SyscallStubs for Stubs {
    fn sol_log(&self, _m: &str) {}
    fn sol_invoke_signed(&self, _ix: &solana_instruction::Instruction, _a: &[AccountInfo], _s: &[&[&[u8]]]) -> solana_program_error::ProgramResult { Ok(()) }
    fn sol_set_return_data(&self, _d: &[u8]) {}
}
fn install() {
    solana_sysvar::program_stubs::set_syscall_stubs(Box::new(Stubs));
    solana_msg::native_hooks::set(|_m| {});
    // every call of this family is a transaction-level instruction (stack height 1), never a CPI
    solana_instruction::syscalls::native_hooks::set(solana_instruction::syscalls::native_hooks::Hooks {
        processed_sibling_instruction: |_i| None,
        stack_height: || solana_instruction::TRANSACTION_LEVEL_STACK_HEIGHT,
    });
    std::panic::set_hook(Box::new(|_| {}));
}

#[derive(Clone, Copy, PartialEq, Eq)]
enum Prog { Rd, Pp, Sw }
impl Prog {
    fn id(self) -> Pubkey { match self { Prog::Rd => doublezero_revenue_distribution::ID, Prog::Pp => doublezero_passport::ID, Prog::Sw => mock_swap_sol_2z::ID } }
    fn selectors(self) -> Vec<(&'static str, Vec<u8>)> { match self { Prog::Rd => rd_selectors(), Prog::Pp => pp_selectors(), Prog::Sw => sw_selectors() } }
}

/// Real processor on (program id, no accounts, data): class and the detailed outcome (for the statistics only).
fn run_real(p: Prog, pid: &Pubkey, data: &[u8]) -> (&'static str, String) {
    let r = std::panic::catch_unwind(|| {
        let accounts: [AccountInfo; 0] = [];
        match p {
            Prog::Rd => doublezero_revenue_distribution::verif_process_instruction(pid, &accounts, data),
            Prog::Pp => doublezero_passport::verif_process_instruction(pid, &accounts, data),
            Prog::Sw => mock_swap_sol_2z::verif_process_instruction(pid, &accounts, data),
        }
    });
    match r {
        Err(_) => ("RDispatched", "panic".into()),
        Ok(Ok(())) => ("RDispatched", "Ok".into()),
        Ok(Err(ProgramError::InvalidInstructionData)) => ("RInvalidData", "InvalidInstructionData".into()),
        Ok(Err(ProgramError::IncorrectProgramId)) => ("RIncorrectProgramId", "IncorrectProgramId".into()),
        Ok(Err(e)) => ("RDispatched", format!("{:?}", e)),
    }
}

/// Real `try_from_slice` for the program's instruction enum: (decoded value as a term, re-encoding reproduces the input).
fn decode_real(p: Prog, data: &[u8]) -> Option<(String, bool)> {
    match p {
        Prog::Rd => RdIx::try_from_slice(data).ok().map(|v| (t_rd(&v).0, ser(&v) == data)),
        Prog::Pp => PpIx::try_from_slice(data).ok().map(|v| (t_pp(&v).0, ser(&v) == data)),
        Prog::Sw => SwIx::try_from_slice(data).ok().map(|v| (t_sw(&v).0, ser(&v) == data)),
    }
}

enum Edit { Same, Trunc(usize), Append(Vec<u8>), Flip(usize, u8), Raw(Vec<u8>) }
impl Edit {
    fn apply(&self, b: &[u8]) -> Vec<u8> {
        match self {
            Edit::Same => b.to_vec(),
            Edit::Trunc(n) => b[..*n].to_vec(),
            Edit::Append(e) => { let mut v = b.to_vec(); v.extend(e); v }
            Edit::Flip(i, x) => { let mut v = b.to_vec(); v[*i] ^= *x; v }
            Edit::Raw(r) => r.clone(),
        }
    }
    fn term(&self) -> String {
        match self {
            Edit::Same => "ESame".into(),
            Edit::Trunc(n) => format!("(ETrunc {})", n),
            Edit::Append(e) => format!("(EAppend {})", pk(e)),
            Edit::Flip(i, x) => format!("(EFlip {} {})", i, x),
            Edit::Raw(r) => format!("(ERaw {})", pk(r)),
        }
    }
    fn kind(&self) -> &'static str {
        match self { Edit::Same => "same", Edit::Trunc(_) => "trunc", Edit::Append(_) => "append", Edit::Flip(i, _) => if *i < 8 { "flip_selector" } else { "flip_payload" }, Edit::Raw(_) => "raw" }
    }
}

fn rand_bytes(r: &mut Rng, n: usize) -> Vec<u8> {
    let small = r.chance(1, 3); // small bytes make valid tags / bools / short lengths likely
    (0..n).map(|_| if small { r.below(3) as u8 } else { r.next() as u8 }).collect()
}

/// The edits applied to one valid encoding.
fn edits(r: &mut Rng, p: Prog, bytes: &[u8], trunc_all_below: usize, per_kind: usize) -> Vec<Edit> {
    let len = bytes.len();
    let mut e = vec![Edit::Same];
    // truncations: every length for short encodings, otherwise the boundaries and a sample
    if len <= trunc_all_below { for n in 0..len { e.push(Edit::Trunc(n)); } }
    else {
        let mut ns = vec![len - 1];
        for _ in 0..per_kind { ns.push(r.below(len as u64) as usize); }
        if r.chance(1, 2) { ns.push(*r.pick(&[0usize, 7, 8, 9, 12, 16, 20])); }
        ns.sort(); ns.dedup();
        for n in ns { if n < len { e.push(Edit::Trunc(n)); } }
    }
    // extensions
    for _ in 0..per_kind { let n = r.range(1, 4) as usize; e.push(Edit::Append(rand_bytes(r, n))); }
    e.push(Edit::Append(vec![0]));
    // selector byte flips
    for _ in 0..per_kind { e.push(Edit::Flip(r.below(8) as usize, 1 + r.below(255) as u8)); }
    if p == Prog::Sw { e.push(Edit::Flip(0, 3)); } // 1 <-> 2: InitializeFillsRegistry <-> BuySol selectors
    // payload byte flips (tags, bools, option tags, vector lengths are in the first bytes)
    if len > 8 {
        for _ in 0..per_kind {
            let i = if r.chance(1, 2) { 8 + r.below(((len - 8) as u64).min(16)) as usize } else { 8 + r.below((len - 8) as u64) as usize };
            let x = match r.below(4) { 0 => 1, 1 => 3, 2 => 0x80, _ => 1 + r.below(255) as u8 };
            e.push(Edit::Flip(i, x));
        }
    }
    // unrelated byte strings: a valid selector of the program followed by random bytes, or pure noise
    for _ in 0..per_kind {
        let sels = p.selectors();
        let raw = match r.below(5) {
            0 => { let n = r.below(24) as usize; rand_bytes(r, n) }
            1 => { let mut v = r.pick(&sels).1.clone(); let n = (len.saturating_sub(8)).min(200); v.extend(rand_bytes(r, n)); v }
            2 => { // another program's selector table
                let other = match p { Prog::Rd => sw_selectors(), Prog::Pp => rd_selectors(), Prog::Sw => pp_selectors() };
                let mut v = r.pick(&other).1.clone(); v.extend_from_slice(&bytes[8.min(len)..]); v }
            _ => { let mut v = r.pick(&sels).1.clone(); let n = *r.pick(&[0usize, 1, 2, 4, 5, 8, 16, 32, 33, 36, 40, 44, 45]); v.extend(rand_bytes(r, n)); v }
        };
        e.push(Edit::Raw(raw));
    }
    // near-miss selectors in front of this value's payload (five per value, cycling through all 124 name / version combinations)
    for _ in 0..5 {
        let k = r.below(124) as usize; let sel = near_miss_selector(k);
        e.push(Edit::Raw(sel.clone()));                                                      // alone (the payload-free instructions)
        let mut v = sel; v.extend_from_slice(&bytes[8.min(len)..]); e.push(Edit::Raw(v));    // in front of this value's payload
    }
    e
}

/// Near-miss selectors: the hash of every instruction name of the three programs with and without a version suffix. Those the
/// encoders really use are valid; every other one is an unknown selector and must be refused (a decoder arm that accepts a
/// "compatibility" selector the encoder never emits would be found here).
const IX_NAMES: [&str; 31] = ["initialize_program", "migrate_program_accounts", "set_admin", "configure_program", "initialize_journal",
    "initialize_distribution", "configure_distribution_debt", "finalize_distribution_debt", "configure_distribution_rewards",
    "finalize_distribution_rewards", "distribute_rewards", "initialize_contributor_rewards", "set_rewards_manager",
    "configure_contributor_rewards", "verify_distribution_merkle_root", "initialize_solana_validator_deposit", "pay_solana_validator_debt",
    "enable_solana_validator_debt_write_off", "write_off_solana_validator_debt", "initialize_swap_destination", "withdraw_sol",
    "sweep_distribution_tokens", "request_access", "grant_access", "deny_access", "configure_journal", "initialize_fills_registry",
    "buy_sol", "dequeue_fills", "forgive_solana_validator_debt", "configure_distribution_rewards_v1"];
fn near_miss_selector(k: usize) -> Vec<u8> {
    let name = IX_NAMES[k % IX_NAMES.len()];
    let suffix = ["", "::v1", "::v0", "::v2"][(k / IX_NAMES.len()) % 4];
    solana_sdk::hash::hashv(&[b"dz::ix::", name.as_bytes(), suffix.as_bytes()]).to_bytes()[..8].to_vec()
}

fn hex(b: &[u8]) -> String { b.iter().map(|x| format!("{:02x}", x)).collect() }

/// `dzh direct-wire <seed> <n_values> <trunc_all_below> <per_kind> [detail_case]`
/// With `detail_case` = i, additionally prints `#detail` lines for case i: every byte string in hex and the
/// detailed real outcome (used by the check to write a replay; generation is a function of the seed).
pub fn main(seed: u64, n_values: usize, trunc_all_below: usize, per_kind: usize, detail_case: i64) {
    install();
    let mut rng = Rng::new(seed ^ 0xC19);
    let mut variants: BTreeMap<String, usize> = BTreeMap::new();
    let mut kinds: BTreeMap<&'static str, usize> = BTreeMap::new();
    let mut outcomes: BTreeMap<String, usize> = BTreeMap::new();
    let mut depths = [0usize; 33];
    let (mut n_obs, mut n_dec_some) = (0usize, 0usize);
    let total_variants = RD_VARIANTS + PP_VARIANTS + SW_VARIANTS;
    for i in 0..n_values {
        // round-robin over all 31 instruction kinds so that every one is covered even in small runs; nested kinds rotate with the round
        let mut which = i % total_variants;
        let mut round = i / total_variants;
        // the 13 payload-free kinds have one value each: after three rounds their slots go to the payload-bearing kinds
        const UNIT: [usize; 13] = [0, 1, 4, 5, 7, 9, 17, 19, 20, 22, 26, 27, 28];
        if round >= 3 && UNIT.contains(&which) {
            loop { which = rng.below(total_variants as u64) as usize; if !UNIT.contains(&which) { break; } }
            round = rng.below(1 << 20) as usize;
        }
        let (p, term, label, bytes) = if which < RD_VARIANTS {
            let v = g_rd(&mut rng, which, round);
            if let RdIx::DistributeRewards { proof, .. } | RdIx::VerifyDistributionMerkleRoot { proof, .. } | RdIx::PaySolanaValidatorDebt { proof, .. } | RdIx::WriteOffSolanaValidatorDebt { proof, .. } = &v { depths[proof.len()] += 1; }
            let (t, l) = t_rd(&v); (Prog::Rd, t, l, ser(&v))
        } else if which < RD_VARIANTS + PP_VARIANTS {
            let v = g_pp(&mut rng, which - RD_VARIANTS, round); let (t, l) = t_pp(&v); (Prog::Pp, t, l, ser(&v))
        } else {
            let v = g_sw(&mut rng, which - RD_VARIANTS - PP_VARIANTS); let (t, l) = t_sw(&v); (Prog::Sw, t, l, ser(&v))
        };
        *variants.entry(label).or_default() += 1;
        // a call carrying another program's id (one of the other two programs, or a random key)
        let wrong = match rng.below(3) { 0 => Prog::id(match p { Prog::Rd => Prog::Pp, Prog::Pp => Prog::Sw, Prog::Sw => Prog::Rd }),
                                         1 => Prog::id(match p { Prog::Rd => Prog::Sw, Prog::Pp => Prog::Rd, Prog::Sw => Prog::Pp }),
                                         _ => Pubkey::new_from_array(g_arr::<32>(&mut rng)) };
        let (wrong_class, _) = run_real(p, &wrong, &bytes);
        let mut obs = vec![];
        for e in edits(&mut rng, p, &bytes, trunc_all_below, per_kind) {
            let b = e.apply(&bytes);
            let d = decode_real(p, &b);
            let (class, detail) = run_real(p, &p.id(), &b);
            *kinds.entry(e.kind()).or_default() += 1;
            *outcomes.entry(format!("{}:{}", e.kind(), detail.split('(').next().unwrap_or(""))).or_default() += 1;
            n_obs += 1;
            if d.is_some() { n_dec_some += 1; }
            let sum: u64 = b.iter().map(|x| *x as u64).sum();
            if detail_case == i as i64 {
                println!("#detail case={} obs={} edit={} program={} data_hex={} try_from_slice={} reencodes_to_input={} processor_outcome={}",
                    i, obs.len() + 1, e.term(), match p { Prog::Rd => "revenue-distribution", Prog::Pp => "passport", Prog::Sw => "mock-swap" }, hex(&b),
                    match &d { None => "Err".to_string(), Some((t, _)) => format!("Ok({})", t) }, d.as_ref().map(|x| x.1).unwrap_or(false), detail);
            }
            obs.push(format!("Obs {} {} {} {} {} {}", e.term(), b.len(), sum,
                match &d { None => "None".to_string(), Some((t, _)) => format!("(Some ({}))", t) },
                t_bool(d.as_ref().map(|x| x.1).unwrap_or(false)), class));
        }
        if detail_case == i as i64 {
            println!("#detail case={} value={} encoding_hex={} foreign_program_id_hex={} outcome_under_foreign_id={}", i, term, hex(&bytes), hex(wrong.as_ref()), wrong_class);
        }
        println!("WCase ({}) {} {} {} [{}]", term, pk(&bytes), pk(wrong.as_ref()), wrong_class, obs.join("; "));
    }
    let f = |m: &BTreeMap<String, usize>| m.iter().map(|(k, v)| format!("{}={}", k, v)).collect::<Vec<_>>().join(",");
    println!("#stats values={} observations={} decoded_some={} kinds={} outcomes={}", n_values, n_obs, n_dec_some,
        kinds.iter().map(|(k, v)| format!("{}={}", k, v)).collect::<Vec<_>>().join(","), f(&outcomes));
    println!("#variants {}", f(&variants));
    println!("#proof_depths {}", depths.iter().enumerate().map(|(d, n)| format!("{}={}", d, n)).collect::<Vec<_>>().join(","));
}
