//! `dzh dump-constants`: prints Generated.v from the crates this binary was linked against.
pub fn main() {
    println!("(* GENERATED on every run by `dzh dump-constants` from the crates linked from /repo. Do not edit. *)");
    println!("From Coq Require Import NArith List.\nImport ListNotations.\nOpen Scope N_scope.\n");
    println!("Definition G_FILLS_CAPACITY : N := {}.", mock_swap_sol_2z::state::FILLS_CAPACITY);
    println!("Definition G_FILLS_REGISTRY_SIZE : N := {}.", std::mem::size_of::<mock_swap_sol_2z::state::FillsRegistry>());
}
