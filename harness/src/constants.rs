//! `dzh dump-constants`: prints Generated.v from the crates this binary was linked against.
pub fn main() {
    println!("(* GENERATED on every run by `dzh dump-constants` from the crates linked from /repo. Do not edit. *)");
    println!("From Coq Require Import NArith List.\nImport ListNotations.\nOpen Scope N_scope.\n");
    println!("Definition G_FILLS_CAPACITY : N := {}.", mock_swap_sol_2z::state::FILLS_CAPACITY);
    println!("Definition G_FILLS_REGISTRY_SIZE : N := {}.", std::mem::size_of::<mock_swap_sol_2z::state::FillsRegistry>());
    // pure shares family (Shares.v / Recipients.v)
    println!("Definition G_UNIT_SHARE32_MAX : N := {}.", u32::from(doublezero_revenue_distribution::types::UnitShare32::MAX));
    println!("Definition G_UNIT_SHARE16_MAX : N := {}.", u16::from(doublezero_revenue_distribution::types::UnitShare16::MAX));
    println!("Definition G_MAX_RECIPIENTS : N := {}.", doublezero_revenue_distribution::state::MAX_RECIPIENTS);
    println!("Definition G_RECIPIENT_SHARES_SIZE : N := {}.", std::mem::size_of::<doublezero_revenue_distribution::state::RecipientShares>());
    println!("Definition G_REWARD_SHARE_FLAG_IS_BLOCKED_BIT : N := {}.", doublezero_revenue_distribution::types::RewardShare::FLAG_IS_BLOCKED_BIT);
    println!("Definition G_REWARD_SHARE_FLAG_IS_BLOCKED_MASK : N := {}.", doublezero_revenue_distribution::types::RewardShare::FLAG_IS_BLOCKED_MASK);
    println!("Definition G_REWARD_SHARE_ECONOMIC_BURN_RATE_MASK : N := {}.", doublezero_revenue_distribution::types::RewardShare::ECONOMIC_BURN_RATE_MASK);
    println!("Definition G_REWARD_SHARE_SIZE : N := {}.", std::mem::size_of::<doublezero_revenue_distribution::types::RewardShare>());
    println!("Definition G_CBR_PARAMS_SIZE : N := {}.", std::mem::size_of::<doublezero_revenue_distribution::state::CommunityBurnRateParameters>());   // C14 (BurnRate.v)
    crate::direct_wire::dump_constants();   // C19 (Wire.v): selectors, program ids, derived-enum tags
}
