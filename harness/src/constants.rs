//! `dzh dump-constants`: prints Generated.v from the crates this binary was linked against.
pub fn main() {
    println!("(* GENERATED on every run by `dzh dump-constants` from the crates linked from /repo. Do not edit. *)");
    println!("From Coq Require Import NArith List.\nImport ListNotations.\nOpen Scope N_scope.\n");
    println!("Definition G_FILLS_CAPACITY : N := {}.", mock_swap_sol_2z::state::FILLS_CAPACITY);
    println!("Definition G_FILLS_REGISTRY_SIZE : N := {}.", std::mem::size_of::<mock_swap_sol_2z::state::FillsRegistry>());
    // pure shares family (Shares.v / Recipients.v)
    println!("Definition G_UNIT_SHARE32_MAX : N := {}.", u32::from(doublezero_revenue_distribution::types::UnitShare32::MAX));
    println!("Definition G_UNIT_SHARE16_MAX : N := {}.", u16::from(doublezero_revenue_distribution::types::UnitShare16::MAX));
    println!("Definition G_MAX_RECIPIENTS : N := {}.", doublezero_revenue_distribution::state::MAX_RECIPIENTS);
    println!("Definition G_RECIPIENT_SHARES_SIZE : N := {}.", std::mem::size_of::<doublezero_revenue_distribution::state::RecipientShares>());
    println!("Definition G_REWARD_SHARE_FLAG_IS_BLOCKED_BIT : N := {}.", doublezero_revenue_distribution::types::RewardShare::FLAG_IS_BLOCKED_BIT);
    println!("Definition G_REWARD_SHARE_FLAG_IS_BLOCKED_MASK : N := {}.", doublezero_revenue_distribution::types::RewardShare::FLAG_IS_BLOCKED_MASK);
    println!("Definition G_REWARD_SHARE_ECONOMIC_BURN_RATE_MASK : N := {}.", doublezero_revenue_distribution::types::RewardShare::ECONOMIC_BURN_RATE_MASK);
    println!("Definition G_REWARD_SHARE_SIZE : N := {}.", std::mem::size_of::<doublezero_revenue_distribution::types::RewardShare>());
    println!("Definition G_CBR_PARAMS_SIZE : N := {}.", std::mem::size_of::<doublezero_revenue_distribution::state::CommunityBurnRateParameters>());   // C14 (BurnRate.v)
    // world model (State.v / RD.v / Passport.v): account sizes, limits, rent, flag bits, mint decimals
    {
        use doublezero_program_tools::zero_copy::data_end;
        use doublezero_revenue_distribution as rd;
        use doublezero_passport as pp;
        println!("Definition G_LEN_RD_CONFIG : N := {}.", data_end::<rd::state::ProgramConfig>());
        println!("Definition G_LEN_JOURNAL : N := {}.", data_end::<rd::state::Journal>());
        println!("Definition G_LEN_DIST : N := {}.", data_end::<rd::state::Distribution>());
        println!("Definition G_LEN_DEPOSIT : N := {}.", data_end::<rd::state::SolanaValidatorDeposit>());
        println!("Definition G_LEN_CONTRIB : N := {}.", data_end::<rd::state::ContributorRewards>());
        println!("Definition G_LEN_PP_CONFIG : N := {}.", data_end::<pp::state::ProgramConfig>());
        println!("Definition G_LEN_ACCESS_REQ : N := {}.", data_end::<pp::state::AccessRequest>());
        println!("Definition G_ACCESS_MODE_MAX : N := {}.", pp::state::REQUEST_ACCESS_MAX_DATA_SIZE);
        println!("Definition G_LEN_FILLS : N := {}.", data_end::<mock_swap_sol_2z::state::FillsRegistry>());
        println!("Definition G_MAX_PERMITTED_DATA_INCREASE : N := {}.", solana_account_info::MAX_PERMITTED_DATA_INCREASE);
        println!("Definition G_LEN_TOKEN : N := {}.", <spl_token_interface::state::Account as solana_program_pack::Pack>::LEN);
        println!("Definition G_LEN_MINT : N := {}.", <spl_token_interface::state::Mint as solana_program_pack::Pack>::LEN);
        let r = solana_sdk::rent::Rent::default();
        println!("Definition G_RENT_0 : N := {}.", r.minimum_balance(0));
        println!("Definition G_RENT_1000 : N := {}.", r.minimum_balance(1000));
        println!("Definition G_RELAY_MIN_LAMPORTS : N := {}.", rd::state::RelayParameters::MIN_LAMPORTS);
        println!("Definition G_MINT_DECIMALS : N := {}.", rd::DOUBLEZERO_MINT_DECIMALS);
        println!("Definition G_DIST_FLAG_BITS : list N := [{}; {}; {}; {}].", rd::state::Distribution::FLAG_IS_DEBT_CALCULATION_FINALIZED_BIT,
            rd::state::Distribution::FLAG_IS_REWARDS_CALCULATION_FINALIZED_BIT, rd::state::Distribution::FLAG_HAS_SWEPT_2Z_TOKENS_BIT,
            rd::state::Distribution::FLAG_IS_SOLANA_VALIDATOR_DEBT_WRITE_OFF_ENABLED_BIT);
        // [rd config paused; rd config migrated; contributor rewards-manager-blocked; passport paused; passport request-access paused]
        println!("Definition G_STATE_FLAG_BITS : list N := [{}; {}; {}; {}; {}].", rd::state::ProgramConfig::FLAG_IS_PAUSED_BIT,
            rd::state::ProgramConfig::FLAG_IS_MIGRATED_BIT, rd::state::ContributorRewards::FLAG_IS_SET_REWARDS_MANAGER_BLOCKED_BIT,
            doublezero_passport::state::ProgramConfig::FLAG_IS_PAUSED_BIT, doublezero_passport::state::ProgramConfig::FLAG_IS_REQUEST_ACCESS_PAUSED_BIT);
    }
    crate::direct_wire::dump_constants();   // C19 (Wire.v): selectors, program ids, derived-enum tags
}
