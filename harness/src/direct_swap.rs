//! C20 direct-call family: the real mock-swap processor on hand-built AccountInfos.
//! Only the fills registry is observed; CPIs are stubbed to succeed (they do not touch the registry).
use crate::rng::Rng;
use mock_swap_sol_2z::{instruction::MockSwapSol2zInstructionData as Ix, state::FillsRegistry, ID};
use solana_account_info::AccountInfo;
use solana_program_error::ProgramError;
use solana_pubkey::Pubkey;
use std::sync::Mutex;

static RET: Mutex<Option<Vec<u8>>> = Mutex::new(None);

struct Stubs;
impl solana_sysvar::program_stubs::SyscallStubs for Stubs {
    fn sol_log(&self, _m: &str) {}
    fn sol_invoke_signed(&self, _ix: &solana_instruction::Instruction, _a: &[AccountInfo], _s: &[&[&[u8]]]) -> solana_program_error::ProgramResult { Ok(()) }
    fn sol_set_return_data(&self, data: &[u8]) { *RET.lock().unwrap() = Some(data.to_vec()); }
}

pub fn install() {
    solana_sysvar::program_stubs::set_syscall_stubs(Box::new(Stubs));
    solana_msg::native_hooks::set(|_m| {});
}

pub struct Reg { pub data: Vec<u8> }
impl Reg {
    pub fn new() -> Self {
        let mut r = Reg { data: vec![0u8; 8 + std::mem::size_of::<FillsRegistry>()] };
        r.run(&Ix::InitializeFillsRegistry).expect("init registry");
        r
    }
    pub fn run(&mut self, ix: &Ix) -> Result<Option<Vec<u8>>, ProgramError> {
        *RET.lock().unwrap() = None;
        let snapshot = self.data.clone();
        let cfg = Pubkey::find_program_address(&[b"system_config"], &ID).0;
        let st = Pubkey::find_program_address(&[b"state"], &ID).0;
        let reg_key = Pubkey::new_from_array([7; 32]);
        let sys = Pubkey::default();
        let others: Vec<Pubkey> = (0..10u8).map(|i| Pubkey::new_from_array([100 + i; 32])).collect();
        let mut lam = vec![1_000_000u64; 16];
        let mut empt: Vec<Vec<u8>> = (0..16).map(|_| vec![]).collect();
        let ix_bytes = borsh::to_vec(ix).unwrap();
        let mut li = lam.iter_mut();
        let mut ei = empt.iter_mut();
        let mut infos: Vec<AccountInfo> = vec![];
        match ix {
            Ix::DequeueFills(_) => {
                infos.push(AccountInfo::new(&cfg, false, false, li.next().unwrap(), ei.next().unwrap(), &sys, false));
                infos.push(AccountInfo::new(&st, false, false, li.next().unwrap(), ei.next().unwrap(), &sys, false));
                infos.push(AccountInfo::new(&reg_key, false, true, li.next().unwrap(), &mut self.data, &ID, false));
                infos.push(AccountInfo::new(&others[0], true, false, li.next().unwrap(), ei.next().unwrap(), &sys, false));
            }
            _ => {
                infos.push(AccountInfo::new(&reg_key, false, true, li.next().unwrap(), &mut self.data, &ID, false));
                for k in others.iter() {
                    infos.push(AccountInfo::new(k, false, true, li.next().unwrap(), ei.next().unwrap(), &sys, false));
                }
            }
        }
        // a panic aborts the instruction like an error does; the runtime discards the account changes of a failed instruction
        let r = std::panic::catch_unwind(std::panic::AssertUnwindSafe(|| mock_swap_sol_2z::verif_process_instruction(&ID, &infos, &ix_bytes)))
            .unwrap_or(Err(ProgramError::Custom(0xDEAD)));
        drop(infos);
        if r.is_err() { self.data = snapshot; }
        r.map(|_| RET.lock().unwrap().take())
    }
}

fn le(b: &[u8]) -> u64 { u64::from_le_bytes(b.try_into().unwrap()) }

/// One history as a Coq term: list of (op, result).
pub fn history(rng: &mut Rng, len: usize) -> (String, usize, usize, usize) {
    let mut reg = Reg::new();
    let mut outstanding: std::collections::VecDeque<u64> = Default::default(); // generator's own guess of SOL amounts, only to aim dequeues
    let mut items = vec![];
    let (mut n_ok, mut n_fail, mut wraps) = (0, 0, 0);
    let small = rng.chance(1, 2);
    let deq_bias = rng.range(2, 6);
    let mut total_deq_ok = 0usize;
    for _ in 0..len {
        let do_buy = rng.below(10) >= deq_bias || outstanding.is_empty() && rng.chance(3, 4);
        if do_buy {
            let sol = if small { rng.range(1, 4) } else { rng.u64_edge() };
            let z = rng.u64_edge();
            let r = reg.run(&Ix::BuySol { amount_2z_in: z, amount_sol_out: sol });
            match r { Ok(_) => { outstanding.push_back(sol); n_ok += 1; if total_deq_ok > 0 { wraps += 1; }
                                  items.push(format!("(SBuy {} {}, ROk)", sol, z)); }
                      Err(_) => { n_fail += 1; items.push(format!("(SBuy {} {}, RFail)", sol, z)); } }
        } else {
            // mostly ask for the oldest outstanding amount, sometimes another outstanding one or a random one
            let sol = match rng.below(10) {
                0 => rng.u64_edge(),
                1 | 2 if outstanding.len() > 1 => outstanding[rng.below(outstanding.len() as u64) as usize],
                _ => outstanding.front().copied().unwrap_or(rng.range(0, 3)),
            };
            match reg.run(&Ix::DequeueFills(sol)) {
                Ok(Some(d)) if d.len() == 24 => { outstanding.pop_front(); n_ok += 1; total_deq_ok += 1;
                    items.push(format!("(SDeq {}, ROkRet {} {} {})", sol, le(&d[0..8]), le(&d[8..16]), le(&d[16..24]))); }
                Ok(_) => { outstanding.pop_front(); n_ok += 1; total_deq_ok += 1; items.push(format!("(SDeq {}, ROk)", sol)); }
                Err(_) => { n_fail += 1; items.push(format!("(SDeq {}, RFail)", sol)); }
            }
        }
    }
    (format!("[{}]", items.join("; ")), n_ok, n_fail, wraps)
}

/// `dzh direct-swap <seed> <n_histories> <max_len>`: prints one history per line, then a `#stats` line.
pub fn main(seed: u64, n: usize, max_len: usize) {
    install();
    let mut rng = Rng::new(seed ^ 0xC20);
    let (mut ok, mut fail, mut wraps) = (0, 0, 0);
    // corpus first: the minimal history that loses a fill when the slot index ignores the head
    for fixed in [vec![(1u64, 10u64, true), (2, 20, true), (1, 0, false), (3, 30, true), (2, 0, false), (3, 0, false)]] {
        let mut reg = Reg::new();
        let mut items = vec![];
        for (sol, z, buy) in fixed {
            if buy { let r = reg.run(&Ix::BuySol { amount_2z_in: z, amount_sol_out: sol });
                     items.push(format!("(SBuy {} {}, {})", sol, z, if r.is_ok() { "ROk" } else { "RFail" })); }
            else { match reg.run(&Ix::DequeueFills(sol)) {
                Ok(Some(d)) => items.push(format!("(SDeq {}, ROkRet {} {} {})", sol, le(&d[0..8]), le(&d[8..16]), le(&d[16..24]))),
                Ok(None) => items.push(format!("(SDeq {}, ROk)", sol)),
                Err(_) => items.push(format!("(SDeq {}, RFail)", sol)) } }
        }
        println!("[{}]", items.join("; "));
    }
    for _ in 0..n {
        let len = rng.range(1, max_len as u64) as usize;
        let (h, a, b, w) = history(&mut rng, len);
        ok += a; fail += b; wraps += w;
        println!("{}", h);
    }
    println!("#stats ok={} fail={} buys_after_head_advanced={}", ok, fail, wraps);
}
