//! Pure shares family (arithmetic/data cores of C02, C03, C16): the real public API of the revenue-distribution
//! crate -- UnitShare16/32 (new, mul_scalar, checked_/saturating_ ops), RewardShare (new, getters, setters),
//! Distribution::split_2z_amount, RecipientShares (new, iter, active_iter) -- on seeded boundary-dense inputs.
//! One case per line as a Gallina term of type `shcase` (coq/theories/Recipients.v): inputs and observed results.
//! A Rust panic (`expect`/`unwrap` inside the crate) is observed through catch_unwind and printed as `None`.
use crate::rng::Rng;
use doublezero_revenue_distribution::{
    state::{Distribution, RecipientShare, RecipientShares, MAX_RECIPIENTS},
    types::{RewardShare, UnitShare16, UnitShare32},
};
use solana_pubkey::Pubkey;
use std::panic::{catch_unwind, AssertUnwindSafe};

const M32: u32 = 1_000_000_000;
const M16: u16 = 10_000;

fn caught<T>(f: impl FnOnce() -> T) -> Option<T> { catch_unwind(AssertUnwindSafe(f)).ok() }

fn opt(o: Option<u64>) -> String { match o { Some(v) => format!("(Some {})", v), None => "None".into() } }
fn b(x: bool) -> &'static str { if x { "true" } else { "false" } }
/// a key as the 256-bit number its 32 bytes spell big-endian (0 = Pubkey::default())
fn key(k: &Pubkey) -> String {
    let bytes = k.to_bytes();
    if bytes.iter().all(|x| *x == 0) { return "0".into(); }
    let mut s = String::from("0x");
    for x in bytes.iter() { s.push_str(&format!("{:02x}", x)); }
    s
}
fn pairs(l: &[(Pubkey, u16)]) -> String {
    format!("[{}]", l.iter().map(|(k, s)| format!("({}, {})", key(k), s)).collect::<Vec<_>>().join("; "))
}

fn u32_edge(rng: &mut Rng) -> u32 {
    match rng.below(16) {
        0 => 0, 1 => 1, 2 => M32 - 1, 3 => M32, 4 => M32 + 1, 5 => (1 << 30) - 1, 6 => 1 << 30, 7 => 1 << 31,
        8 => u32::MAX, 9 => rng.below(16) as u32, 10 => M32 - rng.below(1000) as u32,
        11 => rng.next() as u32, 12 => (rng.below(1000) as u32) * 1_000_000,
        _ => rng.below(M32 as u64 + 1) as u32,
    }
}
/// mostly a valid rate (<= 10^9), boundary-dense
fn rate(rng: &mut Rng) -> u32 {
    match rng.below(12) {
        0 => 0, 1 => 1, 2 => M32, 3 => M32 - 1, 4 => M32 / 2, 5 => rng.below(100) as u32,
        6 => (rng.below(1001) as u32) * 1_000_000, 7 => M32 - rng.below(100) as u32,
        _ => rng.below(M32 as u64 + 1) as u32,
    }
}
fn u16_edge(rng: &mut Rng) -> u16 {
    match rng.below(12) {
        0 => 0, 1 => 1, 2 => M16 - 1, 3 => M16, 4 => M16 + 1, 5 => u16::MAX, 6 => 32768, 7 => rng.below(16) as u16,
        8 => rng.next() as u16, _ => rng.below(M16 as u64 + 1) as u16,
    }
}
fn gen_key(rng: &mut Rng, zero_ok: bool) -> Pubkey {
    let mut a = [0u8; 32];
    match rng.below(10) {
        0 if zero_ok => {}
        0 | 1 => a[31] = 1 + rng.below(3) as u8,             // small keys: duplicates are likely
        2 => a[0] = 0x80,
        3 => a[rng.below(32) as usize] = 1 + rng.below(255) as u8,   // a single non-zero byte
        4 => a = [0xff; 32],
        _ => { for ch in a.chunks_mut(8) { ch.copy_from_slice(&rng.next().to_le_bytes()); } }
    }
    Pubkey::new_from_array(a)
}
/// n positive parts summing to `total` (n <= total)
fn composition(rng: &mut Rng, n: usize, total: u16) -> Vec<u16> {
    let mut v = vec![1u16; n];
    let mut left = total - n as u16;
    match rng.below(4) {
        0 => { let q = left / n as u16; for x in v.iter_mut() { *x += q; } left -= q * n as u16; v[0] += left; }      // equal parts
        1 => { let i = rng.below(n as u64) as usize; v[i] += left; }                                                  // one large part, rest 1
        _ => { for i in 0..n { if i + 1 == n { v[i] += left; } else { let t = rng.below(left as u64 + 1) as u16; v[i] += t; left -= t; } }
               let r = rng.below(n as u64) as usize; v.rotate_left(r); }
    }
    v
}
/// a recipient list: mostly acceptable, otherwise one of the ways to be unacceptable
fn gen_recipients(rng: &mut Rng) -> Vec<(Pubkey, u16)> {
    let mode = rng.below(20);
    let n = match mode { 0 => 0, 1 => 9 + rng.below(3) as usize, 2 => 9, 3 => 8, 4 => 1, _ => 1 + rng.below(8) as usize };
    if n == 0 { return vec![]; }
    let mut shares: Vec<u16> = if n as u16 <= M16 { composition(rng, n, M16) } else { vec![1; n] };
    let mut keys: Vec<Pubkey> = (0..n).map(|_| gen_key(rng, false)).collect();
    if rng.chance(1, 4) && n > 1 { let (i, j) = (rng.below(n as u64) as usize, rng.below(n as u64) as usize); keys[i] = keys[j]; }
    let i = rng.below(n as u64) as usize;
    match mode {
        5 => shares[i] = shares[i].wrapping_add(1),                       // total 10 001
        6 => shares[i] = shares[i].wrapping_sub(1),                       // total 9 999 (or a zero share)
        7 => { let j = rng.below(n as u64) as usize; if j != i { shares[j] += shares[i]; shares[i] = 0; } else { shares[i] = 0; } }  // a zero share, total kept when possible
        8 => keys[i] = Pubkey::default(),                                 // the all-zero key
        9 => shares[i] = u16_edge(rng),
        10 => { for s in shares.iter_mut() { *s = u16_edge(rng); } }
        11 => { shares[i] = 55_536u16.wrapping_add(shares[i]); }          // the total is 10 000 modulo 2^16
        12 => { for s in shares.iter_mut() { *s = 30_000 + rng.below(10_000) as u16; } }   // running u16 sum would wrap
        13 => { shares = vec![M16; n]; }
        _ => {}
    }
    keys.into_iter().zip(shares).collect()
}

fn us32_raw(v: u32) -> UnitShare32 { bytemuck::cast(v) }
fn us16_raw(v: u16) -> UnitShare16 { bytemuck::cast(v) }

fn case_mul(rng: &mut Rng) -> String {
    if rng.chance(1, 4) {
        // checked_/saturating_ arithmetic
        if rng.chance(1, 2) {
            let (a, bb) = (u32_edge(rng), u32_edge(rng));
            let (x, y) = (us32_raw(a), us32_raw(bb));
            format!("CArith W32 {} {} {} {} {} {}", a, bb, opt(x.checked_add(y).map(|v| u32::from(v) as u64)), opt(x.checked_sub(y).map(|v| u32::from(v) as u64)),
                    u32::from(x.saturating_add(y)), u32::from(x.saturating_sub(y)))
        } else {
            let (a, bb) = (u16_edge(rng), u16_edge(rng));
            let (x, y) = (us16_raw(a), us16_raw(bb));
            format!("CArith W16 {} {} {} {} {} {}", a, bb, opt(x.checked_add(y).map(|v| u16::from(v) as u64)), opt(x.checked_sub(y).map(|v| u16::from(v) as u64)),
                    u16::from(x.saturating_add(y)), u16::from(x.saturating_sub(y)))
        }
    } else {
        let raw = rng.chance(1, 8);
        let x = rng.u64_edge();
        if rng.chance(1, 2) {
            let s = if rng.chance(3, 4) { rate(rng) } else { u32_edge(rng) };
            let r = if raw { caught(|| us32_raw(s).mul_scalar(x)) } else { UnitShare32::new(s).and_then(|v| caught(|| v.mul_scalar(x))) };
            format!("CMul W32 {} {} {} {}", b(raw), s, x, opt(r))
        } else {
            let s = u16_edge(rng);
            let r = if raw { caught(|| us16_raw(s).mul_scalar(x)) } else { UnitShare16::new(s).and_then(|v| caught(|| v.mul_scalar(x))) };
            format!("CMul W16 {} {} {} {}", b(raw), s, x, opt(r))
        }
    }
}

fn case_pack(rng: &mut Rng) -> String {
    if rng.chance(1, 2) {
        let us = if rng.chance(3, 4) { rate(rng) } else { u32_edge(rng) };
        let ebr = if rng.chance(3, 4) { rate(rng) } else { u32_edge(rng) };
        let block = rng.chance(1, 2);
        let k = gen_key(rng, true);
        let r = RewardShare::new(k, us, block, ebr);
        let res = match r {
            Some(r) => { assert_eq!(r.contributor_key, k);
                format!("(Some ({}, {}, {}, {}))", r.unit_share, u32::from_le_bytes(r.remaining_bytes), b(r.is_blocked()), r.economic_burn_rate()) }
            None => "None".into(),
        };
        format!("CPack {} {} {} {}", us, b(block), ebr, res)
    } else {
        let us = u32_edge(rng);
        let rem = match rng.below(4) { 0 => u32_edge(rng), 1 => rate(rng) | ((rng.below(4) as u32) << 30), _ => rng.next() as u32 };
        let b2 = rng.chance(1, 2);
        let e2 = rate(rng);
        let mut r = RewardShare { contributor_key: Pubkey::default(), unit_share: us, remaining_bytes: rem.to_le_bytes() };
        let obs = format!("({}, {}, {}, {})", b(r.checked_unit_share().is_some()), b(r.is_blocked()), r.economic_burn_rate(), b(r.checked_economic_burn_rate().is_some()));
        r.set_is_blocked(b2);
        let rem1 = u32::from_le_bytes(r.remaining_bytes);
        r.set_economic_burn_rate(UnitShare32::new(e2).unwrap());
        let rem2 = u32::from_le_bytes(r.remaining_bytes);
        format!("CGetSet {} {} {} {} {} {} {}", us, rem, b(b2), e2, obs, rem1, rem2)
    }
}

fn table_from_slots(slots: &[(Pubkey, u16)]) -> RecipientShares {
    let mut t = RecipientShares::default();
    let bytes = bytemuck::bytes_of_mut(&mut t);
    for (i, (k, s)) in slots.iter().enumerate() {
        bytes[i * 34..i * 34 + 32].copy_from_slice(&k.to_bytes());
        bytes[i * 34 + 32..i * 34 + 34].copy_from_slice(&s.to_le_bytes());
    }
    t
}

fn case_split(rng: &mut Rng) -> String {
    // the leaf
    let us = if rng.chance(9, 10) { rate(rng) } else { u32_edge(rng) };
    let rem: u32 = match rng.below(10) {
        0 => rng.next() as u32,                                    // arbitrary remaining_bytes
        1 => rate(rng) | (1 << 31),                                // blocked flag set
        2 => u32_edge(rng),
        _ => rate(rng),
    };
    let cbr = if rng.chance(9, 10) { rate(rng) } else { u32_edge(rng) };
    // collected amounts: small (dust dominates), mid, huge, overflowing
    let (prepaid, converted) = match rng.below(10) {
        0 => (rng.u64_edge(), rng.u64_edge()),
        1 => (u64::MAX - rng.below(4), rng.below(4)),
        2 => (rng.below(100), rng.below(100)),
        3 => (rng.below(1 << 20), 0),
        4 => (0, rng.next() >> rng.below(40)),
        5 => { let t = u64::MAX - rng.below(1000); let p = rng.below(t); (p, t - p) }
        6 => (rng.below(M32 as u64 * 4), rng.below(M32 as u64 * 4)),
        _ => (rng.next() >> (1 + rng.below(30)), rng.next() >> (1 + rng.below(30))),
    };
    // the stored table: one RecipientShares::new accepts (through new), or arbitrary stored bytes
    let list = gen_recipients(rng);
    let table = match RecipientShares::new(&list) {
        Some(t) => t,
        None => { let mut sl = list.clone(); sl.truncate(MAX_RECIPIENTS); table_from_slots(&sl) }
    };
    let slots: Vec<(Pubkey, u16)> = table.iter().map(|r| (r.recipient_key, u16::from(r.share))).collect();

    let reward_share = RewardShare { contributor_key: gen_key(rng, true), unit_share: us, remaining_bytes: rem.to_le_bytes() };
    let mut d = Distribution::default();
    d.community_burn_rate = us32_raw(cbr);
    d.collected_prepaid_2z_payments = prepaid;
    d.collected_2z_converted_from_sol = converted;
    let split: Option<(u64, u64)> = caught(|| d.split_2z_amount(&reward_share)).flatten();
    let amounts: Option<Vec<u64>> = split.and_then(|(_, remaining)| {
        caught(|| table.active_iter().map(|RecipientShare { share, .. }| share.mul_scalar(remaining)).collect::<Vec<u64>>())
    });
    // processor.rs try_distribute_rewards, the three u64 statements between the calls above (not callable in isolation):
    //   total_transferred_share_amount += recipient_share_amount;   (per recipient)
    //   if transfer_count == 0 { return Err }
    //   burn_share_amount += remaining_share_amount - total_transferred_share_amount;
    let glue: Option<(u64, u64)> = match (split, &amounts) {
        (Some((mut burn_share_amount, remaining_share_amount)), Some(a)) if !a.is_empty() => {
            let mut total_transferred_share_amount = 0u64;
            for recipient_share_amount in a.iter() { total_transferred_share_amount = total_transferred_share_amount.wrapping_add(*recipient_share_amount); }
            burn_share_amount = burn_share_amount.wrapping_add(remaining_share_amount.wrapping_sub(total_transferred_share_amount));
            Some((burn_share_amount, total_transferred_share_amount))
        }
        _ => None,
    };
    let p2 = |o: Option<(u64, u64)>| match o { Some((x, y)) => format!("(Some ({}, {}))", x, y), None => "None".into() };
    let am = match &amounts { Some(a) => format!("(Some [{}])", a.iter().map(|x| x.to_string()).collect::<Vec<_>>().join("; ")), None => "None".into() };
    format!("CSplit {} {} {} {} {} {} {} {} {}", us, rem, cbr, prepaid, converted, pairs(&slots), p2(split), am, p2(glue))
}

fn case_recipients(rng: &mut Rng) -> String {
    let l = gen_recipients(rng);
    let res = match RecipientShares::new(&l) {
        None => "None".to_string(),
        Some(t) => {
            let all: Vec<(Pubkey, u16)> = t.iter().map(|r| (r.recipient_key, u16::from(r.share))).collect();
            let act: Vec<(Pubkey, u16)> = t.active_iter().map(|r| (r.recipient_key, u16::from(r.share))).collect();
            format!("(Some ({}, {}))", pairs(&all), pairs(&act))
        }
    };
    format!("CRecip {} {}", pairs(&l), res)
}

/// `dzh direct-shares <seed> <n_cases> <kinds>` (kinds: comma-separated subset of mul,split,pack,recipients).
pub fn main(seed: u64, n: usize, kinds: String) {
    std::panic::set_hook(Box::new(|_| {}));
    let kinds: Vec<&str> = kinds.split(',').filter(|k| !k.is_empty()).collect();
    let mut rng = Rng::new(seed ^ 0x5A12E5);
    let mut counts = std::collections::BTreeMap::<&str, usize>::new();
    let (mut some, mut none) = (0usize, 0usize);
    for i in 0..n {
        let k = kinds[i % kinds.len()];
        let line = match k {
            "mul" => case_mul(&mut rng),
            "split" => case_split(&mut rng),
            "pack" => case_pack(&mut rng),
            "recipients" => case_recipients(&mut rng),
            other => { eprintln!("unknown kind {}", other); std::process::exit(2); }
        };
        *counts.entry(k).or_default() += 1;
        if line.ends_with("None") { none += 1 } else { some += 1 }
        println!("{}", line);
    }
    println!("#stats {} last_some={} last_none={}", counts.iter().map(|(k, v)| format!("{}={}", k, v)).collect::<Vec<_>>().join(" "), some, none);
}
