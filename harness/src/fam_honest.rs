//! Family `honest` (C13): the documented procedure, every instruction built with the crate's own encoders and
//! account-list builders, random protocol configurations, tree sizes and amounts, and random legal interleavings of up
//! to three overlapping epochs.  Nothing here is a fault: every transaction is expected to succeed.
use crate::fam_rd::{bootstrap_with, Ep, G};
use crate::ixb::{Leaf, RdSetting};
use crate::keys::{b, K};
use crate::rng::Rng;
use crate::scen::tx;
use crate::sim::{Op, Sim};
use std::future::Future;
use std::pin::Pin;

pub fn scenario(sim: Sim, rng: Rng, len: usize) -> Pin<Box<dyn Future<Output = Sim>>> { Box::pin(run(sim, rng, len)) }

async fn run(mut s: Sim, mut rng: Rng, _len: usize) -> Sim {
    let mut g: G = bootstrap_with(&mut s, &mut rng, None).await;
    // complete the configuration deterministically (bootstrap deliberately leaves gaps now and then)
    let calc = rng.range(1, 4) as u16; let init = rng.range(1, 4) as u16; let mine = rng.range(1, 2) as u8;
    // every third history runs with the grace periods at their documented maxima (24 h / 48 h), every third with mid-range values
    // whose second count exceeds 16 bits: all legal configurations, all must run to completion
    let (calc, init) = match (s.n >> 32) % 3 { 0 => (1440u16, 2880u16), 1 => (1100, 1200), _ => (calc, init) };
    let r0 = *rng.pick(&[1u32, 50_000_000, 400_000_000, 1_000_000_000]);
    let lim = r0.max(*rng.pick(&[100_000_000u32, 800_000_000, 1_000_000_000]));
    let ti = rng.range(1, 3) as u32; let tl = ti + rng.range(0, 3) as u32;
    for st in [RdSetting::DebtAccountant(g.debt_acc.clone()), RdSetting::RewardsAccountant(g.rew_acc.clone()), RdSetting::ContributorManager(g.cmgr.clone()),
               RdSetting::SwapProgram(K::SwapMock), RdSetting::FeeParams(rng.below(10_001) as u16, rng.below(10_001) as u16, 0, 5, rng.below(5) as u32),
               RdSetting::CalcGrace(calc), RdSetting::InitGrace(init), RdSetting::BurnRate(lim, ti, tl, Some(r0)),
               RdSetting::RelayLamports(*rng.pick(&[5001u32, 20_000, 1_000_000])), RdSetting::MinEpochs(mine), RdSetting::FeatureActivation(1), RdSetting::Paused(false)] {
        let ix = s.rd_configure(&g.admin, st); s.op(tx(vec![ix])).await;
    }
    g.calc_grace = calc as u64; g.init_grace = init as u64; g.min_epochs = mine as u64;
    for ci in 0..g.svcs.len() {
        if g.recips[ci].is_empty() {
            let rec = vec![(K::User(300 + ci as u64), 6_000u16), (K::User(309), 4_000u16)];
            for (r, _) in &rec { s.reg_ata(r); s.op(Op::CreateAta { payer: g.payer.clone(), owner: r.clone() }).await; }
            let ix = s.rd_configure_contributor_recipients(&g.mgrs[ci].clone(), &g.svcs[ci].clone(), &rec); s.op(tx(vec![ix])).await; g.recips[ci] = rec;
        } else { for (r, _) in g.recips[ci].clone() { s.reg_ata(&r); s.op(Op::CreateAta { payer: g.payer.clone(), owner: r.clone() }).await; } }
    }
    let n_epochs = rng.range(1, 3) as usize + g.min_epochs as usize;   // enough later epochs for the deferral
    let full = n_epochs - g.min_epochs as usize;                        // epochs driven to completion
    let big = rng.chance(1, 3);
    // per-epoch plans
    struct Plan { debt: Vec<Leaf>, rew: Vec<Leaf> }
    let mut plans = vec![];
    for _ in 0..full {
        let nv = if big { rng.range(1, 70) } else { rng.range(0, 9) } as usize;
        let debt: Vec<Leaf> = (0..nv).map(|_| Leaf::Debt { node: rng.pick(&g.nodes).clone(),
            amount: match rng.below(6) { 0 => 0, 1 => 1, _ => rng.range(1, 2_000_000_000) } }).collect();
        let nc = if big { rng.range(1, 40) } else { rng.range(1, 6) } as usize;
        let mut rest = 1_000_000_000u32; let mut rew = vec![];
        for i in 0..nc { let us = if i + 1 == nc { rest } else { rng.below(rest as u64 + 1) as u32 }; rest -= us;
            rew.push(Leaf::Reward { contributor: rng.pick(&g.svcs).clone(), unit_share: us, packed: *rng.pick(&[0u32, 7, 300_000_000, 1_000_000_000]) }); }
        plans.push(Plan { debt, rew });
    }
    // stages per epoch: 0 not created, 1 created, 2 debt posted, 3 debt final, 4 all leaves settled, 5 rewards posted, 6 rewards final, 7 swept, 8 all distributed
    let mut stage = vec![0u8; n_epochs];
    let mut created = 0usize;
    let mut guard = 0;
    loop {
        guard += 1; if guard > 4000 { break; }
        if (0..full).all(|i| stage[i] == 8) && created == n_epochs { break; }
        // candidates: create the next epoch, or advance a random epoch
        let mut cands: Vec<usize> = (0..created.min(full)).filter(|&i| stage[i] < 8).collect();
        let can_create = created < n_epochs;
        if can_create && (cands.is_empty() || rng.chance(1, 4)) {
            g.clock += g.init_grace * 60 + rng.below(3); s.op(Op::SetClock(g.clock)).await;
            if rng.chance(1, 3) { let amt = rng.range(1, 9_000_000); s.op(Op::MintTo(K::Ata(b(&K::RdJournal), b(&K::Mint)), amt)).await; }
            let e = created as u64;
            let ix = s.rd_initialize_distribution(&g.debt_acc, &g.payer, e); s.op(tx(vec![ix])).await;
            g.eps.push(Ep { e, ..Default::default() }); stage[created] = 1; created += 1;
            continue;
        }
        if rng.chance(1, 12) {   // the admin legally changes a parameter that open distributions have snapshotted (relay fee, fees)
            let st = if rng.chance(2, 3) { RdSetting::RelayLamports(*rng.pick(&[5001u32, 9_000, 60_000, 2_000_000])) }
                     else { RdSetting::FeeParams(rng.below(10_001) as u16, rng.below(10_001) as u16, 0, 5, rng.below(5) as u32) };
            let ix = s.rd_configure(&g.admin, st); s.op(tx(vec![ix])).await;
        }
        if cands.is_empty() { continue; }
        let i = cands.remove(rng.below(cands.len() as u64) as usize);
        let e = i as u64;
        match stage[i] {
            1 => { g.clock += g.calc_grace * 60; s.op(Op::SetClock(g.clock)).await;
                   let t = s.def_tree(0, plans[i].debt.clone());
                   let total: u64 = plans[i].debt.iter().map(|l| if let Leaf::Debt { amount, .. } = l { *amount } else { 0 }).sum();
                   let ix = s.rd_configure_debt(&g.debt_acc, e, t.leaves.len() as u32, total, t.root); s.op(tx(vec![ix])).await;
                   g.eps[i].debt = Some(t); g.eps[i].total_debt = total; stage[i] = 2; }
            2 => { let ix = s.rd_finalize_debt(&g.debt_acc, e, &g.payer); s.op(tx(vec![ix])).await; stage[i] = 3;
                   if rng.chance(1, 2) { let ix = s.rd_enable_write_off(e, &g.payer); s.op(tx(vec![ix])).await; g.eps[i].wo = true; } }
            3 => { let t = g.eps[i].debt.clone().unwrap();
                   let todo: Vec<u32> = (0..t.leaves.len() as u32).filter(|x| !g.eps[i].settled.contains(x)).collect();
                   if todo.is_empty() || g.eps[i].total_debt == 0 { stage[i] = 4; continue; }
                   let idx = *rng.pick(&todo);
                   let Leaf::Debt { node, amount } = t.leaves[idx as usize].clone() else { unreachable!() };
                   let p = s.proof(&t, idx).unwrap();
                   let poor = (node == g.nodes[6] || node == g.nodes[7]) && amount > 0;
                   if poor {
                       if !g.eps[i].wo { let ix = s.rd_enable_write_off(e, &g.payer); s.op(tx(vec![ix])).await; g.eps[i].wo = true; }
                       // the documented alternative: absorb the debt in a later epoch that is not yet swept, has finalized debt and enough
                       // collectible debt left (fully settled, so the shared pool can still cover this epoch's sweep)
                       let later: Vec<usize> = ((i + 1)..created.min(full)).filter(|&j| stage[j] >= 4 && stage[j] < 7
                           && g.eps[j].total_debt - g.eps[j].uncollectible >= amount).collect();
                       let tgt = if !later.is_empty() && rng.chance(1, 2) { *rng.pick(&later) } else { i };
                       let ix = s.rd_write_off(&g.debt_acc, e, &node, tgt as u64, amount, &p); s.op(tx(vec![ix])).await; g.eps[tgt].uncollectible += amount;
                   } else {
                       s.op(Op::Airdrop(K::RdDeposit(b(&node)), amount)).await;
                       let ix = s.rd_pay(e, &node, amount, &p); s.op(tx(vec![ix])).await;
                   }
                   g.eps[i].settled.insert(idx); }
            4 => { let t = s.def_tree(1, plans[i].rew.clone());
                   let ix = s.rd_configure_rewards(&g.rew_acc, e, t.leaves.len() as u32, t.root); s.op(tx(vec![ix])).await;
                   g.eps[i].rew = Some(t); stage[i] = 5;
                   if !g.eps[i].wo && rng.chance(1, 2) { let ix = s.rd_enable_write_off(e, &g.payer); s.op(tx(vec![ix])).await; g.eps[i].wo = true; } }
            5 => { if (created as u64) < e + g.min_epochs { continue; }
                   let ix = s.rd_finalize_rewards(&g.payer, e); s.op(tx(vec![ix])).await; stage[i] = 6;
                   if !g.eps[i].wo && rng.chance(1, 2) { let ix = s.rd_enable_write_off(e, &g.payer); s.op(tx(vec![ix])).await; g.eps[i].wo = true; } }
            6 => { if e != g.next_sweep { continue; }
                   let sol = g.eps[i].total_debt - g.eps[i].uncollectible;
                   if sol > 0 { let z = rng.range(1, 50_000_000_000);
                       let ix = s.sw_buy(&g.fills, &K::Ata(b(&g.buyer), b(&K::Mint)), &g.buyer, &g.users[8], z, sol); s.op(tx(vec![ix])).await; }
                   let ix = s.rd_sweep(e, &K::SwapMock, &g.fills); s.op(tx(vec![ix])).await; g.next_sweep += 1; stage[i] = 7; }
            7 => { let t = g.eps[i].rew.clone().unwrap();
                   let todo: Vec<u32> = (0..t.leaves.len() as u32).filter(|x| !g.eps[i].distributed.contains(x)).collect();
                   if todo.is_empty() { stage[i] = 8; continue; }
                   let idx = *rng.pick(&todo);
                   let Leaf::Reward { contributor, unit_share, packed } = t.leaves[idx as usize].clone() else { unreachable!() };
                   let ci = g.svcs.iter().position(|x| *x == contributor).unwrap();
                   let recs: Vec<K> = g.recips[ci].iter().map(|x| x.0.clone()).collect();
                   let p = s.proof(&t, idx).unwrap();
                   let ix = s.rd_distribute(e, &contributor, &g.relayer, &recs, unit_share, packed, &p); s.op(tx(vec![ix])).await;
                   g.eps[i].distributed.insert(idx); }
            _ => {}
        }
    }
    // observe the final state of every distribution and custody account (a no-op transaction touching them)
    for i in 0..full { let e = i as u64;
        let ix = crate::sim::Ix { prog: K::System, bytes: solana_system_interface::instruction::transfer(&s.keys.pk(&g.payer), &s.keys.pk(&g.payer), 0).data,
            term: "(IxSysTransfer 0)".into(), metas: vec![(g.payer.clone(), true, true), (g.payer.clone(), false, true), (K::RdDist(e), false, false), (K::Tok2z(b(&K::RdDist(e))), false, false)] };
        s.op(tx(vec![ix])).await; }
    s
}
