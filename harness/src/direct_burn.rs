//! C14 direct-call family: community burn rate parameters driven through the real revenue-distribution processor
//! on hand-built AccountInfos.  `BUpdate` = ConfigureProgram(CommunityBurnRateParameters{..}) (calls
//! CommunityBurnRateParameters::{new, checked_update}); `BCompute` = InitializeDistribution (calls checked_compute and
//! stamps the rate on the new distribution account).  CPIs (create account / token account) are stubbed to succeed.
//! Observed after every operation: ok/fail, the rate stamped on the distribution, the 24-byte parameter block inside
//! the program config (bytemuck bytes, cross-checked against the public getters) and next_completed_dz_epoch.
use crate::rng::Rng;
use doublezero_program_tools::PrecomputedDiscriminator;
use doublezero_revenue_distribution::{
    instruction::{ProgramConfiguration, RevenueDistributionInstructionData as Ix},
    state::{self, CommunityBurnRateParameters, Distribution, Journal, ProgramConfig},
    types::{DoubleZeroEpoch, ValidatorFee},
    DOUBLEZERO_MINT_KEY, ID,
};
use solana_account_info::AccountInfo;
use solana_pubkey::Pubkey;
use spl_associated_token_account_interface::address::get_associated_token_address;
use std::sync::atomic::{AtomicBool, AtomicI64, Ordering};

static NOW: AtomicI64 = AtomicI64::new(1_000_000);
static IN_CALL: AtomicBool = AtomicBool::new(false);   // panics inside the processor are failures, not harness bugs

struct Stubs;
impl solana_sysvar::program_stubs::SyscallStubs for Stubs {
    fn sol_log(&self, _m: &str) {}
    fn sol_invoke_signed(&self, _ix: &solana_instruction::Instruction, _a: &[AccountInfo], _s: &[&[&[u8]]]) -> solana_program_error::ProgramResult { Ok(()) }
    fn sol_get_clock_sysvar(&self, var_addr: *mut u8) -> u64 {
        let c = solana_sysvar::clock::Clock { unix_timestamp: NOW.load(Ordering::SeqCst), ..Default::default() };
        unsafe { std::ptr::write_unaligned(var_addr as *mut solana_sysvar::clock::Clock, c) };
        0
    }
    fn sol_get_rent_sysvar(&self, var_addr: *mut u8) -> u64 {
        unsafe { std::ptr::write_unaligned(var_addr as *mut solana_sysvar::rent::Rent, solana_sysvar::rent::Rent::default()) };
        0
    }
}

pub fn install() {
    solana_sysvar::program_stubs::set_syscall_stubs(Box::new(Stubs));
    solana_msg::native_hooks::set(|_m| {});
    std::panic::set_hook(Box::new(|i| { if !IN_CALL.load(Ordering::SeqCst) { eprintln!("harness panic: {}", i); } }));
}

const CFG_LEN: usize = 8 + std::mem::size_of::<ProgramConfig>();
const DIST_LEN: usize = 8 + std::mem::size_of::<Distribution>();
const JRN_LEN: usize = 8 + std::mem::size_of::<Journal>();

/// 8-byte aligned account data
struct Buf(Vec<u64>, usize);
impl Buf {
    fn new(len: usize) -> Self { Buf(vec![0u64; (len + 7) / 8], len) }
    fn bytes(&self) -> &[u8] { &bytemuck::cast_slice::<u64, u8>(&self.0)[..self.1] }
    fn bytes_mut(&mut self) -> &mut [u8] { let n = self.1; &mut bytemuck::cast_slice_mut::<u64, u8>(&mut self.0)[..n] }
}

#[derive(Clone, Copy, PartialEq, Eq, Debug)]
pub struct Block { pub f: [u32; 6] }
impl Block {
    fn coq(&self) -> String { format!("mkP {} {} {} {} {} {}", self.f[0], self.f[1], self.f[2], self.f[3], self.f[4], self.f[5]) }
}

pub struct World {
    cfg: Buf, journal: Buf,
    admin: Pubkey, accountant: Pubkey, payer: Pubkey, cfg_key: Pubkey, journal_key: Pubkey, journal_2z: Pubkey, journal_ata: Pubkey,
}

#[derive(Clone, Copy, PartialEq, Eq, Debug)]
pub enum Res { Rate(u32), Acc, Rej, Fail }
impl Res { fn coq(&self) -> String { match self { Res::Rate(r) => format!("RRate {}", r), Res::Acc => "RAcc".into(), Res::Rej => "RRej".into(), Res::Fail => "RFail".into() } } }

#[derive(Clone, Copy, Debug)]
pub enum Op { Compute, Update { limit: u32, to_inc: u32, to_lim: u32, initial: Option<u32> } }
impl Op {
    fn coq(&self) -> String {
        match self {
            Op::Compute => "BCompute".into(),
            Op::Update { limit, to_inc, to_lim, initial } =>
                format!("BUpdate {} {} {} {}", limit, to_inc, to_lim, match initial { Some(i) => format!("(Some {})", i), None => "None".into() }),
        }
    }
}

impl World {
    pub fn new() -> Self {
        let admin = Pubkey::new_from_array([11; 32]);
        let accountant = Pubkey::new_from_array([12; 32]);
        let payer = Pubkey::new_from_array([13; 32]);
        let cfg_key = ProgramConfig::find_address().0;
        let journal_key = Journal::find_address().0;
        let (journal_2z, journal_2z_bump) = state::find_2z_token_pda_address(&journal_key);
        let journal_ata = get_associated_token_address(&journal_key, &DOUBLEZERO_MINT_KEY);
        let mut cfg = Buf::new(CFG_LEN);
        cfg.bytes_mut()[..8].copy_from_slice(ProgramConfig::discriminator_slice());
        {
            // everything InitializeDistribution needs besides the burn rate parameters; the burn rate block stays zeroed
            let pc: &mut ProgramConfig = bytemuck::from_bytes_mut(&mut cfg.bytes_mut()[8..]);
            pc.admin_key = admin;
            pc.debt_accountant_key = accountant;
            pc.distribution_parameters.calculation_grace_period_minutes = 1;
            pc.distribution_parameters.initialization_grace_period_minutes = 1;
            pc.distribution_parameters.solana_validator_fee_parameters.base_block_rewards_pct = ValidatorFee::new(1).unwrap();
            pc.relay_parameters.distribute_rewards_lamports = 10_000;
        }
        let mut journal = Buf::new(JRN_LEN);
        journal.bytes_mut()[..8].copy_from_slice(Journal::discriminator_slice());
        {
            let j: &mut Journal = bytemuck::from_bytes_mut(&mut journal.bytes_mut()[8..]);
            j.token_2z_pda_bump_seed = journal_2z_bump;
        }
        NOW.store(1_000_000, Ordering::SeqCst);
        World { cfg, journal, admin, accountant, payer, cfg_key, journal_key, journal_2z, journal_ata }
    }

    fn config(&self) -> &ProgramConfig { bytemuck::from_bytes(&self.cfg.bytes()[8..]) }
    pub fn params(&self) -> CommunityBurnRateParameters { self.config().distribution_parameters.community_burn_rate_parameters }
    pub fn epoch(&self) -> u64 { self.config().next_completed_dz_epoch.value() }
    /// the parameter block as stored: six little-endian u32, cross-checked against the public fields and getters
    pub fn block(&self) -> Block {
        let p = self.params();
        let b = bytemuck::bytes_of(&p);
        assert_eq!(b.len(), 24);
        let mut f = [0u32; 6];
        for i in 0..6 { f[i] = u32::from_le_bytes(b[4 * i..4 * i + 4].try_into().unwrap()); }
        assert_eq!(f[0], u32::from(p.limit));
        assert_eq!(f[1], p.dz_epochs_to_increasing);
        assert_eq!(f[2], p.dz_epochs_to_limit);
        let (n, d) = p.slope();
        assert_eq!((f[3], f[4]), (u32::from(n), d));
        assert_eq!(f[5], p.next_burn_rate().map(u32::from).unwrap_or(0));
        Block { f }
    }

    /// One operation through the real processor. On failure the program config is restored afterwards (the runtime
    /// would roll back), but the block is observed *before* that, so a failing path that writes is visible.
    pub fn apply(&mut self, op: &Op) -> (Res, Block, u64) {
        let snapshot = self.cfg.0.clone();
        let sys = Pubkey::default();
        let tok = spl_token_interface::ID;
        let mut lam = vec![1_000_000_000u64; 12];
        let mut empty: Vec<Vec<u8>> = (0..12).map(|_| vec![]).collect();
        let res = match op {
            Op::Update { limit, to_inc, to_lim, initial } => {
                let ix = borsh::to_vec(&Ix::ConfigureProgram(ProgramConfiguration::CommunityBurnRateParameters {
                    limit: *limit, dz_epochs_to_increasing: *to_inc, dz_epochs_to_limit: *to_lim, initial_rate: *initial })).unwrap();
                let mut li = lam.iter_mut();
                let mut ei = empty.iter_mut();
                let infos = vec![
                    AccountInfo::new(&self.cfg_key, false, true, li.next().unwrap(), self.cfg.bytes_mut(), &ID, false),
                    AccountInfo::new(&self.admin, true, false, li.next().unwrap(), ei.next().unwrap(), &sys, false),
                ];
                IN_CALL.store(true, Ordering::SeqCst);
                let r = std::panic::catch_unwind(std::panic::AssertUnwindSafe(||
                    doublezero_revenue_distribution::verif_process_instruction(&ID, &infos, &ix)));
                IN_CALL.store(false, Ordering::SeqCst);
                match r { Ok(Ok(())) => Res::Acc, _ => Res::Rej }
            }
            Op::Compute => {
                NOW.fetch_add(120, Ordering::SeqCst);
                let epoch = DoubleZeroEpoch::new(self.epoch());
                let (dist_key, _) = Distribution::find_address(epoch);
                let (dist_2z, _) = state::find_2z_token_pda_address(&dist_key);
                let mut dist = Buf::new(DIST_LEN);
                let ix = borsh::to_vec(&Ix::InitializeDistribution).unwrap();
                let mut dist_lam = 0u64;
                let mut dist_2z_lam = 0u64;
                let r = {
                    let mut li = lam.iter_mut();
                    let mut ei = empty.iter_mut();
                    let infos = vec![
                        AccountInfo::new(&self.cfg_key, false, true, li.next().unwrap(), self.cfg.bytes_mut(), &ID, false),
                        AccountInfo::new(&self.accountant, true, false, li.next().unwrap(), ei.next().unwrap(), &sys, false),
                        AccountInfo::new(&self.payer, true, true, li.next().unwrap(), ei.next().unwrap(), &sys, false),
                        AccountInfo::new(&dist_key, false, true, &mut dist_lam, dist.bytes_mut(), &ID, false),
                        AccountInfo::new(&dist_2z, false, true, &mut dist_2z_lam, ei.next().unwrap(), &sys, false),
                        AccountInfo::new(&DOUBLEZERO_MINT_KEY, false, false, li.next().unwrap(), ei.next().unwrap(), &tok, false),
                        AccountInfo::new(&tok, false, false, li.next().unwrap(), ei.next().unwrap(), &sys, true),
                        AccountInfo::new(&self.journal_key, false, true, li.next().unwrap(), self.journal.bytes_mut(), &ID, false),
                        AccountInfo::new(&self.journal_2z, false, false, li.next().unwrap(), ei.next().unwrap(), &tok, false),
                        AccountInfo::new(&self.journal_ata, false, true, li.next().unwrap(), ei.next().unwrap(), &sys, false),
                        AccountInfo::new(&sys, false, false, li.next().unwrap(), ei.next().unwrap(), &sys, true),
                    ];
                    IN_CALL.store(true, Ordering::SeqCst);
                    let r = std::panic::catch_unwind(std::panic::AssertUnwindSafe(||
                        doublezero_revenue_distribution::verif_process_instruction(&ID, &infos, &ix)));
                    IN_CALL.store(false, Ordering::SeqCst);
                    r
                };
                match r {
                    Ok(Ok(())) => {
                        assert!(Distribution::has_discriminator(dist.bytes()));
                        let d: &Distribution = bytemuck::from_bytes(&dist.bytes()[8..]);
                        assert_eq!(d.dz_epoch.value(), epoch.value());
                        Res::Rate(u32::from(d.community_burn_rate))
                    }
                    _ => Res::Fail,
                }
            }
        };
        let blk = self.block();
        let e = self.epoch();
        if matches!(res, Res::Rej | Res::Fail) { self.cfg.0 = snapshot; }
        (res, blk, e)
    }
}

const MAXR: u32 = 1_000_000_000;

fn rate_edge(rng: &mut Rng) -> u32 {
    match rng.below(14) {
        0 => 0, 1 => 1, 2 => 2, 3 => MAXR, 4 => MAXR - 1, 5 => MAXR + 1, 6 => u32::MAX,
        7 => rng.range(1, 100) as u32, 8 | 9 => (rng.range(1, 10) * 100_000_000) as u32,
        10 => rng.range(MAXR as u64 - 50, MAXR as u64) as u32,
        11 => rng.next() as u32,
        _ => rng.below(MAXR as u64 + 1) as u32,
    }
}
fn epochs_edge(rng: &mut Rng) -> u32 {
    match rng.below(12) {
        0 => 0, 1 | 2 => 1, 3 => 2, 4 | 5 | 6 => rng.range(1, 8) as u32, 7 => rng.range(1, 40) as u32,
        8 => u32::MAX, 9 => u32::MAX - 1, 10 => rng.range(1000, 100_000) as u32, _ => rng.next() as u32,
    }
}
/// (to_increasing, to_limit): mostly valid (1 <= inc <= lim), boundary dense
fn epochs_pair(rng: &mut Rng) -> (u32, u32) {
    let inc = epochs_edge(rng);
    let lim = match rng.below(10) {
        0 | 1 => inc,                                           // to_limit = to_increasing
        2 => inc.saturating_add(1),
        3 | 4 | 5 => inc.saturating_add(rng.range(1, 8) as u32),
        6 => inc.saturating_sub(1),                             // invalid unless inc = 0
        7 => u32::MAX,
        _ => epochs_edge(rng),
    };
    (inc, lim)
}
/// a limit aimed at the current next rate (the generator reads the block only to aim; nothing is asserted from it)
fn limit_near(rng: &mut Rng, cur: &Block) -> u32 {
    let next = cur.f[5];
    match rng.below(12) {
        0 => next, 1 => next.saturating_sub(1), 2 => next.saturating_add(1), 3 => cur.f[0], 4 => MAXR,
        5 | 6 | 7 => { let hi = MAXR.max(next); next + rng.below((hi - next) as u64 + 1) as u32 }
        8 => next.saturating_add(rng.range(1, 20) as u32),
        _ => rate_edge(rng),
    }
}

#[derive(Default)]
pub struct Stats { acc: u64, rej: u64, rate: u64, fail: u64, stat: u64, inc: u64, lim: u64, init_late: u64 }

fn run_ops(w: &mut World, ops: &[Op], st: &mut Stats) -> String {
    let b0 = w.block();
    let e0 = w.epoch();
    let mut items = vec![];
    for op in ops { items.push(step(w, op, st)); }
    format!("({}, {}, [{}])", b0.coq(), e0, items.join("; "))
}
fn step(w: &mut World, op: &Op, st: &mut Stats) -> String {
    let before = w.block();
    let e_before = w.epoch();
    let (res, blk, e) = w.apply(op);
    match res {
        Res::Acc => st.acc += 1,
        Res::Rej => { st.rej += 1; if let Op::Update { initial: Some(_), .. } = op { if e_before != 0 { st.init_late += 1; } } }
        Res::Fail => st.fail += 1,
        Res::Rate(_) => { st.rate += 1; if before.f[1] != 0 { st.stat += 1 } else if before.f[2] != 0 { st.inc += 1 } else { st.lim += 1 } }
    }
    format!("({}, {}, {}, {})", op.coq(), res.coq(), blk.coq(), e)
}

/// One seeded history as a Coq term of type BurnRate.case
pub fn history(rng: &mut Rng, len: usize, st: &mut Stats) -> String {
    let mut w = World::new();
    let b0 = w.block();
    let e0 = w.epoch();
    let mut items = vec![];
    let small = rng.chance(2, 3);          // keep epoch counts small so that all three phases are reached
    let compute_bias = rng.range(4, 8);
    let mut n = 0usize;
    // prologue: sometimes operations on the never-configured block
    if rng.chance(1, 4) {
        for _ in 0..rng.range(1, 3) {
            let op = if rng.chance(1, 2) { Op::Compute } else {
                let (i, l) = epochs_pair(rng); Op::Update { limit: rate_edge(rng), to_inc: i, to_lim: l, initial: None } };
            items.push(step(&mut w, &op, st)); n += 1;
        }
    }
    while n < len {
        let cur = w.block();
        let e = w.epoch();
        let op = if cur.f[5] == 0 {
            // no rate yet: mostly try to set the initial parameters
            let (mut i, mut l) = epochs_pair(rng);
            if small { i = (i % 6).max(rng.below(8).min(1) as u32); l = i.saturating_add(rng.below(6) as u32); if rng.chance(1, 10) { l = i.saturating_sub(1); } }
            let init = rate_edge(rng);
            let limit = match rng.below(6) { 0 => init, 1 => init.saturating_sub(1), 2 | 3 => { let hi = MAXR.max(init); init + rng.below((hi - init) as u64 + 1) as u32 }, _ => rate_edge(rng) };
            match rng.below(10) { 0 => Op::Compute, 1 => Op::Update { limit, to_inc: i, to_lim: l, initial: None },
                                  _ => Op::Update { limit, to_inc: i, to_lim: l, initial: Some(init) } }
        } else if rng.below(10) < compute_bias {
            Op::Compute
        } else {
            let (mut i, mut l) = epochs_pair(rng);
            if small { i = (i % 6).max(rng.below(8).min(1) as u32); l = i.saturating_add(rng.below(6) as u32); if rng.chance(1, 10) { l = i.saturating_sub(1); } }
            let limit = limit_near(rng, &cur);
            // an initial rate after the first distribution must be refused; before it, it may replace the parameters
            let initial = if e == 0 { if rng.chance(1, 3) { Some(rate_edge(rng).min(limit)) } else { None } }
                          else if rng.chance(1, 8) { Some(if rng.chance(1, 2) { cur.f[5] } else { rate_edge(rng) }) } else { None };
            Op::Update { limit, to_inc: i, to_lim: l, initial }
        };
        items.push(step(&mut w, &op, st)); n += 1;
    }
    format!("({}, {}, [{}])", b0.coq(), e0, items.join("; "))
}

/// `dzh direct-burn <seed> <n_histories> <max_len>`: one history per line, then a `#stats` line.
pub fn main(seed: u64, n: usize, max_len: usize) {
    install();
    let mut rng = Rng::new(seed ^ 0xC14);
    let mut st = Stats::default();
    let up = |limit, to_inc, to_lim, initial| Op::Update { limit, to_inc, to_lim, initial };
    let c = |k: usize| vec![Op::Compute; k];
    // corpus: the crate's own unit-test vectors and boundary shapes
    let corpus: Vec<Vec<Op>> = vec![
        [vec![up(500_000_000, 2, 5, Some(100_000_000))], c(8)].concat(),
        [vec![up(500_000_000, 1, 4, Some(100_000_000))], c(7)].concat(),
        [vec![up(500_000_000, 1, 1, Some(100_000_000))], c(3)].concat(),
        [vec![up(500_000_000, 2, 5, Some(100_000_000)), up(250_000_000, 3, 7, None)], c(1), vec![up(350_000_000, 4, 9, None)], c(11)].concat(),
        [vec![up(500_000_000, 1, 4, Some(100_000_000))], c(1), vec![up(600_000_000, 2, 9, None)], c(11)].concat(),
        [vec![up(4, 1, 4, Some(1))], c(6)].concat(),                                  // remainder: 3 / 4 = 0 per epoch, then the limit
        [vec![up(MAXR, 1, u32::MAX, Some(1))], c(4)].concat(),
        [vec![up(MAXR, u32::MAX, u32::MAX, Some(MAXR))], c(3)].concat(),
        [vec![Op::Compute, up(5, 1, 2, None), Op::Compute, up(5, 0, 2, None), up(7, 1, 2, Some(0)), up(7, 1, 2, Some(8)), up(7, 1, 2, Some(7))], c(1),
         vec![up(9, 1, 2, Some(3)), up(6, 1, 2, None), up(MAXR + 1, 1, 2, None), up(7, 2, 1, None), up(7, 1, 1, None)], c(3)].concat(),
        [vec![up(10, 1, 3, Some(5)), up(10, 1, 3, Some(2))], c(5)].concat(),          // initial rate replaced (lower) before the first distribution
    ];
    for ops in corpus.iter() {
        let mut w = World::new();
        println!("{}", run_ops(&mut w, ops, &mut st));
    }
    for _ in 0..n {
        let len = rng.range(1, max_len as u64) as usize;
        println!("{}", history(&mut rng, len, &mut st));
    }
    println!("#stats accepted={} rejected={} rejected_initial_after_first_distribution={} rates={} static={} increasing={} limit={} compute_failed={}",
             st.acc, st.rej, st.init_late, st.rate, st.stat, st.inc, st.lim, st.fail);
}
